import LekkerVerif.Properties.C11
import LekkerVerif.Proofs.HierParams
import LekkerVerif.Model.HierParamsWF
import LekkerVerif.Core.HierFlattenSpec

/-! # C11, parametric side: `top.flatten(); top.solve(**kw)` = `top.solve(**kw)` in the composed model

`PNet.psolve` hands the call dictionary down through the nested solvers (every level: rename + shield, then overlay on the
level's own defaults); `PNet.pflatSolve` evaluates every leaf through ONE composed rename table applied to the root's resolved
dictionary.  For every hierarchy passing the executable check `PNet.pwf` both give the same pins and coefficients, for every
call `kw` (`PNet.pflatSolve_preserves`). -/

/-! ### keys of dictionaries -/

namespace Dict
variable {V : Type}

theorem mem_keys_set (d : Dict V) (k : String) (v : V) (x : String) :
    x ∈ (d.set k v).keys ↔ x ∈ d.keys ∨ x = k := by
  unfold set keys
  split
  · rename_i hk
    have : (d.kv.map fun e => if e.1 == k then (k, v) else e).map (·.1) = d.kv.map (·.1) := by
      rw [List.map_map]
      apply List.map_congr_left
      intro e _
      by_cases he : e.1 = k
      · simp [he]
      · simp [he]
    rw [this]
    constructor
    · exact Or.inl
    · rintro (h | rfl)
      · exact h
      · unfold hasKey at hk
        obtain ⟨e, he, hek⟩ := List.any_eq_true.1 hk
        exact List.mem_map.2 ⟨e, he, by simpa using hek⟩
  · simp only [List.map_append, List.map_cons, List.map_nil, List.mem_append, List.mem_singleton]

theorem mem_keys_overlay (d e : Dict V) (x : String) :
    x ∈ (d.overlay e).keys ↔ x ∈ d.keys ∨ x ∈ e.keys := by
  unfold overlay
  have : e.keys = e.kv.map (·.1) := rfl
  rw [this]
  induction e.kv generalizing d with
  | nil => simp
  | cons a t ih =>
    simp only [List.foldl, List.map_cons, List.mem_cons]
    refine (ih (d.set a.1 a.2)).trans ?_
    rw [mem_keys_set]
    constructor
    · rintro ((h | h) | h)
      · exact Or.inl h
      · exact Or.inr (Or.inl h)
      · exact Or.inr (Or.inr h)
    · rintro (h | h | h)
      · exact Or.inl (Or.inl h)
      · exact Or.inl (Or.inr h)
      · exact Or.inr h

theorem get?_isSome_of_mem_keys (d : Dict V) (x : String) (h : x ∈ d.keys) : (d.get? x).isSome = true := by
  unfold keys at h
  obtain ⟨e, he, hex⟩ := List.mem_map.1 h
  unfold get?
  cases hf : d.kv.find? (·.1 == x) with
  | some e' => rfl
  | none =>
    have := List.find?_eq_none.1 hf e he
    simp [hex] at this

end Dict

theorem solverParams_covers {V : Type} (defs args : Dict V) (x : String) (h : x ∈ defs.keys) :
    ((solverParams defs args ⟨[]⟩).get? x).isSome = true := by
  apply Dict.get?_isSome_of_mem_keys
  unfold solverParams
  rw [Dict.mem_keys_overlay, Dict.mem_keys_overlay, Dict.mem_keys_overlay]
  exact Or.inl (Or.inl (Or.inr h))

/-- the incoming dictionary wins over the solver's own defaults -/
theorem solverParams_get_of_some {V : Type} (defs args : Dict V) (hk : args.keys.Nodup) (x : String)
    (h : (args.get? x).isSome = true) : (solverParams defs args ⟨[]⟩).get? x = args.get? x := by
  rw [C05_precedence]
  have : Dict.lastOf args.kv x = args.get? x := Dict.lastOf_eq_get?_of_nodup args.kv hk x
  rw [this]
  cases hg : args.get? x with
  | none => rw [hg] at h; cases h
  | some v => simp [Dict.lastOf]

theorem renameFixed_nil {V : Type} (d : Dict V) : renameFixed [] d = d := by
  unfold renameFixed
  simp

/-! ### the name under which a parameter of a placed object is visible one level up -/



theorem mem_keys_registerDefaults_left {V : Type} (m : Table) (acc cd : Dict V) (x : String) (h : x ∈ acc.keys) :
    x ∈ (registerDefaults m acc cd).keys := by
  unfold registerDefaults
  rw [Dict.mem_keys_overlay]
  exact Or.inl h

theorem mem_keys_registerDefaults_right {V : Type} (m : Table) (acc cd : Dict V) (y : String) (h : y ∈ cd.keys)
    (hg : y ≠ "R" ∧ y ≠ "w" ∧ y ≠ "pol") : vis m y ∈ (registerDefaults m acc cd).keys := by
  unfold registerDefaults
  rw [Dict.mem_keys_overlay]
  right
  unfold Dict.keys at h ⊢
  obtain ⟨kv, hkv, rfl⟩ := List.mem_map.1 h
  simp only [List.map_map]
  refine List.mem_map.2 ⟨kv, List.mem_filter.2 ⟨hkv, ?_⟩, ?_⟩
  · simp [hg.1, hg.2.1, hg.2.2]
  · simp only [Function.comp, vis]
    cases m.find? (·.2 == kv.1) <;> rfl

namespace Flatten

theorem composeTables_nil (L : Table) : composeTables [] L = L := by
  unfold composeTables
  simp

theorem simul_of_midName {V : Type} (m : Table) (d : Dict V) (x mm : String) (h : midName m x = some mm) :
    simul m d x = d.get? mm := by
  unfold simul
  unfold midName at h
  cases hf : m.find? (·.2 == x) with
  | some e =>
    rw [hf] at h
    have : e.1 = mm := by simpa using h
    simp only [this]
  | none =>
    rw [hf] at h
    cases ha : m.any (·.1 == x) with
    | true => rw [ha] at h; simp at h
    | false =>
      rw [ha] at h
      have : x = mm := by simpa using h
      simp [this]

/-- the composed table again has distinct new names -/
theorem compose_news_nodup (P L : Table) (hPo : (P.map (·.2)).Nodup) (hPn : (P.map (·.1)).Nodup)
    (hLn : (L.map (·.1)).Nodup)
    (hinj : ∀ t ∈ P.map (·.1), t ∈ L.map (·.1) → t ∈ P.map (·.2)) :
    ((composeTables P L).map (·.1)).Nodup := by
  rw [composeTables_closed P L hPo hPn hinj, List.map_append, List.map_append]
  have hdis : ∀ pe ∈ P, ∀ a ∈ lrestOf P L, a.1 ≠ pe.1 := by
    intro pe hpe a ha e
    obtain ⟨haL, hnot⟩ := (mem_lrestOf P L a).1 ha
    exact hnot (e ▸ hinj pe.1 (List.mem_map.2 ⟨pe, hpe, rfl⟩) (e ▸ List.mem_map.2 ⟨a, haL, rfl⟩))
  have n1 : ((lrestOf P L).map (·.1)).Nodup := ((List.filter_sublist).map _).nodup hLn
  have n2 : ((rek P L).map (·.1)).Nodup := (rek_keys_sublist P L).nodup hPn
  have n3 : ((passThrough P L).map (·.1)).Nodup := ((List.filter_sublist).map _).nodup hPn
  refine List.nodup_append.2 ⟨n1, List.nodup_append.2 ⟨n2, n3, ?_⟩, ?_⟩
  · intro k hk k' hk' e
    subst e
    obtain ⟨u, hu, rfl⟩ := List.mem_map.1 hk
    obtain ⟨u', hu', hkk⟩ := List.mem_map.1 hk'
    obtain ⟨pe, hpe, le, hf, rfl⟩ := (mem_rek P L u).1 hu
    obtain ⟨hu'P, hn, _⟩ := (mem_passThrough P L u').1 hu'
    have : u' = pe := inj_of_nodup_map (·.1) P hPn u' pe hu'P hpe hkk
    subst this
    have hle := List.mem_of_find?_eq_some hf
    have hle1 : le.1 = u'.2 := by simpa using List.find?_some hf
    exact hn (List.mem_map.2 ⟨le, hle, hle1⟩)
  · intro a ha b hb e
    subst e
    obtain ⟨u, hu, rfl⟩ := List.mem_map.1 ha
    rcases List.mem_append.1 hb with hb | hb
    · obtain ⟨u', hu', hkk⟩ := List.mem_map.1 hb
      obtain ⟨pe, hpe, le, _, rfl⟩ := (mem_rek P L u').1 hu'
      exact hdis pe hpe u hu hkk.symm
    · obtain ⟨u', hu', hkk⟩ := List.mem_map.1 hb
      exact hdis u' ((mem_passThrough P L u').1 hu').1 u hu hkk.symm

end Flatten

/-! ### the renaming conditions on one placement -/

/-- what the check demands of the rename table `m` of a placement whose object has the visible parameter names `ks`
(the keys of its `default_params`): distinct old names, distinct new names; a new name does not collide with a visible name
unless that name is renamed away; only visible names are renamed; the geometry keys (never raised by `add_structure`) are
not parameter names -/
structure PlaceOK (m : Table) (ks : List String) : Prop where
  olds : (m.map (·.2)).Nodup
  news : (m.map (·.1)).Nodup
  inj : ∀ n ∈ m.map (·.1), n ∈ ks → n ∈ m.map (·.2)
  vis : ∀ o ∈ m.map (·.2), o ∈ ks
  geom : ∀ y ∈ ks, y ≠ "R" ∧ y ≠ "w" ∧ y ≠ "pol"



theorem placeOK_iff (m : Table) (ks : List String) : placeOK m ks = true ↔ PlaceOK m ks := by
  unfold placeOK
  simp only [Bool.and_eq_true, decide_eq_true_eq, List.all_eq_true, Bool.or_eq_true, Bool.not_eq_true',
    List.contains_eq_mem, decide_eq_false_iff_not, bne_iff_ne, ne_eq]
  constructor
  · rintro ⟨⟨⟨⟨h1, h2⟩, h3⟩, h4⟩, h5⟩
    exact ⟨h1, h2, fun n hn hk => (h3 n hn).resolve_left (fun h => h hk), h4, fun y hy => and_assoc.1 (h5 y hy)⟩
  · intro h
    exact ⟨⟨⟨⟨h.olds, h.news⟩, fun n hn => by
      by_cases hk : n ∈ ks
      · exact Or.inr (h.inj n hn hk)
      · exact Or.inl hk⟩, h.vis⟩, fun y hy => and_assoc.2 (h.geom y hy)⟩

theorem vis_of_mem (m : Table) (hold : (m.map (·.2)).Nodup) (e : String × String) (he : e ∈ m) : vis m e.2 = e.1 := by
  unfold vis
  rw [(find?_old_iff m hold e.2 e).2 ⟨he, rfl⟩]

theorem vis_of_not_old (m : Table) (x : String) (h : x ∉ m.map (·.2)) : vis m x = x := by
  unfold vis
  have : m.find? (·.2 == x) = none := by
    rw [List.find?_eq_none]; intro e he hb
    exact h (List.mem_map.2 ⟨e, he, by simpa using hb⟩)
  rw [this]

theorem midName_vis (m : Table) (ks : List String) (ok : PlaceOK m ks) (x : String) (hx : x ∈ ks) :
    Flatten.midName m x = some (vis m x) := by
  unfold Flatten.midName vis
  cases hf : m.find? (·.2 == x) with
  | some e => rfl
  | none =>
    have hno : x ∉ m.map (·.2) := by
      intro h
      obtain ⟨e, he, hex⟩ := List.mem_map.1 h
      have := List.find?_eq_none.1 hf e he
      simp [hex] at this
    have ha : m.any (·.1 == x) = false := by
      rw [List.any_eq_false]
      intro e he hb
      exact hno (ok.inj x (List.mem_map.2 ⟨e, he, by simpa using hb⟩) hx)
    simp [ha]

/-! ### the invariant carried down a path -/

/-- `P` is the composed table down to an object whose visible names satisfy `K`, `d0` the root's resolved dictionary, `D` the
dictionary that reaches the object through the nested solvers: `P` is injective, its new names do not collide with visible names
(unless renamed away), and on every visible name one renaming by `P` of `d0` finds what `D` has - and `D` has a value -/
structure PathInv {V : Type} (P : Table) (K : String → Prop) (d0 D : Dict V) : Prop where
  olds : (P.map (·.2)).Nodup
  news : (P.map (·.1)).Nodup
  inj : ∀ t ∈ P.map (·.1), K t → t ∈ P.map (·.2)
  agree : ∀ x, K x → (renameFixed P d0).get? x = D.get? x ∧ (D.get? x).isSome = true
  keys : D.keys.Nodup

/-- the object resolves the incoming dictionary over its own defaults: nothing changes on the visible names -/
theorem PathInv.resolve {V : Type} {P : Table} {defs d0 D : Dict V} (a : PathInv P (· ∈ defs.keys) d0 D) :
    PathInv P (· ∈ defs.keys) d0 (solverParams defs D ⟨[]⟩) := by
  refine ⟨a.olds, a.news, a.inj, ?_, solverParams_keys_nodup _ _ _⟩
  intro x hx
  obtain ⟨h1, h2⟩ := a.agree x hx
  rw [solverParams_get_of_some defs D a.keys x h2]
  exact ⟨h1, h2⟩

/-- the root: nothing composed yet, the resolved dictionary has every visible name -/
theorem PathInv.root {V : Type} (defs kw : Dict V) :
    PathInv [] (· ∈ defs.keys) (solverParams defs kw ⟨[]⟩) (solverParams defs kw ⟨[]⟩) := by
  refine ⟨by simp, by simp, by simp, ?_, solverParams_keys_nodup _ _ _⟩
  intro x hx
  rw [renameFixed_nil]
  exact ⟨rfl, solverParams_covers defs kw x hx⟩

open Flatten in
/-- **one placement further down**: the table `flatten_top_level` composes and the dictionary the placement hands down again
satisfy the invariant (this is `compose_general` at one level, with its hypotheses discharged from the local conditions) -/
theorem PathInv.step {V : Type} {P : Table} {K : String → Prop} {d0 D : Dict V} (a : PathInv P K d0 D)
    (m : Table) (ks : List String) (ok : PlaceOK m ks) (hvis : ∀ y ∈ ks, K (vis m y)) :
    PathInv (composeTables P m) (· ∈ ks) d0 (renameFixed m D) := by
  have hinj : ∀ t ∈ P.map (·.1), t ∈ m.map (·.1) → t ∈ P.map (·.2) := by
    intro t htP htm
    obtain ⟨e, he, rfl⟩ := List.mem_map.1 htm
    have hk : e.2 ∈ ks := ok.vis e.2 (List.mem_map.2 ⟨e, he, rfl⟩)
    have := hvis e.2 hk
    rw [vis_of_mem m ok.olds e he] at this
    exact a.inj e.1 htP this
  have hclosed := composeTables_closed P m a.olds a.news hinj
  -- an old name of `m` is an old name of the composed table
  have holdm : ∀ t ∈ m.map (·.2), t ∈ (composeTables P m).map (·.2) := by
    intro t ht
    obtain ⟨e, he, rfl⟩ := List.mem_map.1 ht
    rw [hclosed]
    by_cases hn : e.1 ∈ P.map (·.2)
    · obtain ⟨pe, hpe, hpe2⟩ := List.mem_map.1 hn
      have hf : m.find? (·.1 == pe.2) = some e := (find?_new_iff m ok.news pe.2 e).2 ⟨he, hpe2.symm⟩
      exact List.mem_map.2 ⟨(pe.1, e.2),
        List.mem_append_right _ (List.mem_append_left _ ((mem_rek P m _).2 ⟨pe, hpe, e, hf, rfl⟩)), rfl⟩
    · exact List.mem_map.2 ⟨e, List.mem_append_left _ ((mem_lrestOf P m e).2 ⟨he, hn⟩), rfl⟩
  refine ⟨compose_olds_nodup P m a.olds a.news ok.olds ok.news hinj,
    compose_news_nodup P m a.olds a.news ok.news hinj, ?_, ?_, renameFixed_keys_nodup m ok.olds D a.keys⟩
  · intro t ht hk
    by_cases hto : t ∈ m.map (·.2)
    · exact holdm t hto
    · have htn : t ∉ m.map (·.1) := fun h => hto (ok.inj t h hk)
      have hKt : K t := by have := hvis t hk; rwa [vis_of_not_old m t hto] at this
      -- `t` is a new name of the parent's table
      have htP : t ∈ P.map (·.1) := by
        rw [hclosed] at ht
        obtain ⟨u, hu, rfl⟩ := List.mem_map.1 ht
        rcases List.mem_append.1 hu with hu | hu
        · exact absurd (List.mem_map.2 ⟨u, ((mem_lrestOf P m u).1 hu).1, rfl⟩) htn
        · rcases List.mem_append.1 hu with hu | hu
          · obtain ⟨pe, hpe, le, _, rfl⟩ := (mem_rek P m u).1 hu
            exact List.mem_map.2 ⟨pe, hpe, rfl⟩
          · exact List.mem_map.2 ⟨u, ((mem_passThrough P m u).1 hu).1, rfl⟩
      obtain ⟨pe, hpe, hpe2⟩ := List.mem_map.1 (a.inj t htP hKt)
      rw [hclosed]
      exact List.mem_map.2 ⟨pe, List.mem_append_right _ (List.mem_append_right _
        ((mem_passThrough P m pe).2 ⟨hpe, by rw [hpe2]; exact htn, by rw [hpe2]; exact hto⟩)), hpe2⟩
  · intro x hx
    have hm := midName_vis m ks ok x hx
    have hK := hvis x hx
    obtain ⟨h1, h2⟩ := a.agree (vis m x) hK
    have e1 : (renameFixed m D).get? x = D.get? (vis m x) := by
      rw [renameFixed_spec m D ok.olds, simul_of_midName m D x _ hm]
    rw [e1]
    refine ⟨?_, h2⟩
    rw [compose_general P m d0 a.olds a.news ok.olds ok.news hinj x (vis m x) hm (fun h => a.inj _ h hK),
      renameFixed_spec m _ ok.olds, simul_of_midName m _ x _ hm]
    exact h1

/-! ### the shape of one level, as a Boolean check -/

namespace HNet



theorem pinAt_spec (pinss : List (List String)) (p : PinRef) (h : pinAt pinss p = true) :
    ∃ ps, pinss[p.1]? = some ps ∧ p.2 ∈ ps := by
  unfold pinAt at h
  cases hg : pinss[p.1]? with
  | none => rw [hg] at h; cases h
  | some ps => rw [hg] at h; exact ⟨ps, rfl, by simpa using h⟩

theorem levelOK_of_levelOKb (pinss : List (List String)) (links : List (PinRef × PinRef)) (exposed : List (String × PinRef))
    (h : levelOKb pinss links exposed = true) : LevelOK pinss links exposed := by
  unfold levelOKb at h
  simp only [Bool.and_eq_true, decide_eq_true_eq, List.all_eq_true, bne_iff_ne, ne_eq] at h
  obtain ⟨⟨⟨⟨⟨⟨⟨h1, h2⟩, h3⟩, h4⟩, h5⟩, h6⟩, h7⟩, h8⟩ := h
  refine ⟨h1, h2, ?_, h4, h5, fun e he => pinAt_spec pinss e.2 (h6 e he), fun e he l hl => h7 e he l hl, h8⟩
  intro l hl p hp
  rcases hp with rfl | rfl
  · exact pinAt_spec pinss _ (h3 l hl).1
  · exact pinAt_spec pinss _ (h3 l hl).2

end HNet

/-! ### the check on a parametric hierarchy -/

namespace PNet
section check
variable {F : Type}



/-- the well-formedness hypothesis of `pflatSolve_preserves` -/
def PWF (t : PNet F) : Prop := pwf t = true

instance (t : PNet F) : Decidable (PWF t) := by unfold PWF; infer_instance

/-! ### the defaults registered in a solver contain every visible name of every placed object -/

theorem mem_keys_defaultsAll_acc (cs : List (Table × PNet F)) (acc : Dict F) (x : String) (h : x ∈ acc.keys) :
    x ∈ (defaultsAll acc cs).keys := by
  induction cs generalizing acc with
  | nil => simpa [defaultsAll] using h
  | cons mc rest ih =>
    obtain ⟨m, ch⟩ := mc
    rw [defaultsAll]
    exact ih _ (mem_keys_registerDefaults_left m acc _ x h)

theorem mem_keys_defaultsAll (cs : List (Table × PNet F)) (acc : Dict F) (hw : pwfAll cs = true) :
    ∀ mc ∈ cs, ∀ y ∈ (defaults mc.2).keys, vis mc.1 y ∈ (defaultsAll acc cs).keys := by
  induction cs generalizing acc with
  | nil => intro mc hmc; cases hmc
  | cons mc0 rest ih =>
    obtain ⟨m, ch⟩ := mc0
    rw [pwfAll, Bool.and_eq_true, Bool.and_eq_true] at hw
    intro mc hmc y hy
    rw [defaultsAll]
    rcases List.mem_cons.1 hmc with rfl | hmc
    · have ok := (placeOK_iff m _).1 hw.1.1
      exact mem_keys_defaultsAll_acc rest _ _ (mem_keys_registerDefaults_right m acc _ y hy (ok.geom y hy))
    · exact ih _ hw.2 mc hmc y hy

theorem flatLeavesAll_none (cs : List (Table × PNet F)) : flatLeavesAll none cs = flatLeavesAll (some []) cs := by
  induction cs with
  | nil => simp [flatLeavesAll]
  | cons mc rest ih =>
    obtain ⟨m, ch⟩ := mc
    simp only [flatLeavesAll, ih, Flatten.composeTables_nil]

end check

section proofs
variable {F : Type} [Field F] [DecidableEq F]

/-! ### the shape part of the check -/

theorem pinNames_inst (d : Dict F) (t : PNet F) : HNet.pinNames (inst d t) = pinNames t := by
  cases t with
  | leaf pins idx S0 S1 param dflt => simp [inst, HNet.pinNames, pinNames]
  | node children links exposed => simp [inst, HNet.pinNames, pinNames]

theorem pinNames_instAll (d : Dict F) (cs : List (Table × PNet F)) :
    (instAll d cs).map HNet.pinNames = cs.map fun mc => pinNames mc.2 := by
  induction cs with
  | nil => simp [instAll]
  | cons mc rest ih =>
    obtain ⟨m, ch⟩ := mc
    simp only [instAll, List.map_cons, ih, pinNames_inst]

mutual
/-- the shape part of the check: every instantiation is a well-formed tree -/
theorem wfTree_inst : ∀ (t : PNet F) (d : Dict F), pwf t = true → HNet.WFTree (inst d t)
  | .leaf pins idx S0 S1 param dflt, d, _ => by
      rw [inst]; exact HNet.WFTree.leaf _
  | .node children links exposed, d, h => by
      rw [pwf, Bool.and_eq_true] at h
      rw [inst]
      refine HNet.WFTree.node _ _ _ (wfTree_instAll children _ h.2) ?_
      rw [pinNames_instAll]
      exact HNet.levelOK_of_levelOKb _ _ _ h.1
theorem wfTree_instAll : ∀ (cs : List (Table × PNet F)) (d : Dict F), pwfAll cs = true →
    ∀ h ∈ instAll d cs, HNet.WFTree h
  | [], d, _ => by intro h hh; simp [instAll] at hh
  | (m, ch) :: rest, d, hw => by
      rw [pwfAll, Bool.and_eq_true, Bool.and_eq_true] at hw
      intro h hh
      rw [instAll] at hh
      rcases List.mem_cons.1 hh with rfl | hh
      · exact wfTree_inst ch _ hw.1.2
      · exact wfTree_instAll rest d hw.2 h hh
end

/-! ### the leaves of the instantiated hierarchy are the instantiated leaf placements of `flatten()` -/

theorem instAll_append (d : Dict F) (a b : List (Table × PNet F)) : instAll d (a ++ b) = instAll d a ++ instAll d b := by
  induction a with
  | nil => simp [instAll]
  | cons mc rest ih => obtain ⟨m, ch⟩ := mc; simp [instAll, ih]

mutual
/-- an object reached by the nested dictionary `D` while `P` is the composed table down to it: its leaves, in order, are its
leaf placements of `flatten()` evaluated through their composed tables on the root's dictionary `d0` -/
theorem leaves_inst : ∀ (o : PNet F) (P : Table) (d0 D : Dict F), pwf o = true →
    PathInv P (· ∈ (defaults o).keys) d0 D →
    (HNet.leaves (inst D o)).map (fun pc => HNet.leaf pc.2) = instAll d0 (flatLeaves (some P) o)
  | .leaf pins idx S0 S1 param dflt, P, d0, D, _, a => by
      have hx : param ∈ (defaults (.leaf pins idx S0 S1 param dflt : PNet F)).keys := by
        simp [defaults, Dict.keys]
      obtain ⟨h1, _⟩ := a.agree param hx
      simp only [inst, flatLeaves, instAll, HNet.leaves_leaf, List.map_cons, List.map_nil, Option.getD_some, h1]
  | .node children links exposed, P, d0, D, hw, a => by
      rw [pwf, Bool.and_eq_true] at hw
      rw [inst, HNet.leaves_node, flatLeaves]
      rw [defaults] at a
      exact leaves_instAll children P d0 _ _ 0 hw.2 a.resolve (mem_keys_defaultsAll children _ hw.2)
theorem leaves_instAll : ∀ (cs : List (Table × PNet F)) (P : Table) (d0 D : Dict F) (K : String → Prop) (k : Nat),
    pwfAll cs = true → PathInv P K d0 D → (∀ mc ∈ cs, ∀ y ∈ (defaults mc.2).keys, K (vis mc.1 y)) →
    (HNet.leavesAll (instAll D cs) k).map (fun pc => HNet.leaf pc.2) = instAll d0 (flatLeavesAll (some P) cs)
  | [], P, d0, D, K, k, _, _, _ => by simp [instAll, flatLeavesAll, HNet.leavesAll]
  | (m, ch) :: rest, P, d0, D, K, k, hw, a, hK => by
      rw [pwfAll, Bool.and_eq_true, Bool.and_eq_true] at hw
      have ok := (placeOK_iff m _).1 hw.1.1
      have a' := a.step m _ ok (hK (m, ch) List.mem_cons_self)
      have h1 := leaves_inst ch (Flatten.composeTables P m) d0 (renameFixed m D) hw.1.2 a'
      have h2 := leaves_instAll rest P d0 D K (k + 1) hw.2 a (fun mc hmc => hK mc (List.mem_cons_of_mem _ hmc))
      rw [instAll, HNet.leavesAll, flatLeavesAll, instAll_append, List.map_append, List.map_map, h2, ← h1]
      rfl
end

/-- **every leaf is evaluated at the same value** by the nested solvers and by the flattened solver: the components the
flattened solver works on are the leaves of the instantiated hierarchy, in order -/
theorem flat_components (kw : Dict F) (children : List (Table × PNet F)) (links : List (PinRef × PinRef))
    (exposed : List (String × PinRef)) (hyp : PWF (.node children links exposed)) :
    instAll (solverParams (defaultsAll ⟨[]⟩ children) kw ⟨[]⟩) (flatLeavesAll none children) =
      (HNet.leaves (inst kw (.node children links exposed))).map (fun pc => HNet.leaf pc.2) := by
  unfold PWF at hyp
  rw [pwf, Bool.and_eq_true] at hyp
  rw [inst, HNet.leaves_node, flatLeavesAll_none]
  exact (leaves_instAll children [] _ _ _ 0 hyp.2 (PathInv.root _ kw) (mem_keys_defaultsAll children _ hyp.2)).symm

/-- in the composed model, solving after `flatten()` is solving the flattening of the instantiated hierarchy -/
theorem pflatSolve_eq (s' : List (St F) → Option (Nat × Nat)) (kw : Dict F) (t : PNet F) (hyp : PWF t) :
    pflatSolve s' kw t = HNet.solveH s' (inst kw t).flatten := by
  cases t with
  | leaf pins idx S0 S1 param dflt =>
    unfold pflatSolve
    simp only [inst, HNet.flatten_leaf]
  | node children links exposed =>
    have hc := flat_components kw children links exposed hyp
    unfold pflatSolve
    rw [inst] at hc ⊢
    rw [HNet.flatten_node]
    simp only [hc]

/-- **C11, parameter side: `flatten()` preserves every parameter's meaning** - for every hierarchy passing the check, every
call `kw` and any schedules: `top.flatten(); top.solve(**kw)` (leaves evaluated through the composed tables) returns the pins
and the coefficients of `top.solve(**kw)` (dictionaries resolved and renamed level by level) -/
theorem pflatSolve_preserves (s s' : List (St F) → Option (Nat × Nat)) (kw : Dict F) (t : PNet F) (hyp : PWF t)
    (c c' : CompD F) (h : psolve s kw t = .ok c) (h' : pflatSolve s' kw t = .ok c') :
    c'.pins = c.pins ∧ ∀ x ∈ c.pins, ∀ y ∈ c.pins, c'.sem x y = c.sem x y := by
  rw [pflatSolve_eq s' kw t hyp] at h'
  exact HNet.flatten_preserves s s' (inst kw t) (wfTree_inst t kw hyp) c c' h h'

end proofs
end PNet

/-! ### non-vacuity -/

section example_
open PNet

/-- a two-level parametric hierarchy over ℚ with a rename at each level: the inner solver places a `pa`-leaf renamed
`pa → pa_u` next to a `pb`-leaf; the top solver places the inner solver renamed `pa_u → pc` next to a `pa`-leaf (any matrices) -/
def exampleNet (S0 S1 : Mat ℚ) : PNet ℚ :=
  .node
    [([("pc", "pa_u")],
      .node [([("pa_u", "pa")], .leaf ["a0", "a1"] [("a0", 0), ("a1", 1)] S0 S1 "pa" (1 / 2)),
             ([], .leaf ["a0", "a1"] [("a0", 1), ("a1", 0)] S0 S1 "pb" (1 / 4))]
        [((0, "a1"), (1, "a0"))] [("x", (0, "a0")), ("y", (1, "a1"))]),
     ([], .leaf ["a0", "a1"] [("a0", 0), ("a1", 1)] S0 S1 "pa" 0)]
    [((0, "y"), (1, "a0"))] [("in", (0, "x")), ("out", (1, "a1"))]

/-- the check accepts it -/
example (S0 S1 : Mat ℚ) : PWF (exampleNet S0 S1) := by
  unfold PWF exampleNet
  rfl

/-- the composed tables of its three leaf placements: `pc → pa` for the inner `pa`-leaf (the two renames composed); the inner
`pb`-leaf receives the parent's entry `pc → pa_u` as a pass-through entry (`pa_u` is not a name of that leaf: harmless); the outer
`pa`-leaf keeps the empty table -/
example (S0 S1 : Mat ℚ) : (flatLeaves none (exampleNet S0 S1)).map (·.1) = [[("pc", "pa")], [("pc", "pa_u")], []] := by
  unfold exampleNet
  rfl

end example_

