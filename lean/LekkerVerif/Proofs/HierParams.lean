import LekkerVerif.Model.HierParams
/-! `PNet.dictAt` (the dictionary the composed model hands to the object at the end of a path of placements) is `descend`
(Model/Params.lean: the function `C05_precedence_any_depth` is about) along the tables and defaults of that path. -/

namespace PNet
variable {F : Type} [Scalar F]

/-- what an object does with the dictionary that reaches it: overlay on its own defaults -/
def resolve (t : PNet F) (d : Dict F) : Dict F := solverParams t.defaults d ⟨[]⟩

/-- the (table, defaults of the placed object) pairs along a path, and the object at its end -/
def pathLevels : PNet F → List Nat → Option (List (Table × Dict F) × PNet F)
  | t, [] => some ([], t)
  | .leaf .., _ :: _ => none
  | .node children _ _, i :: rest => pathLevelsList children i rest
where
  pathLevelsList : List (Table × PNet F) → Nat → List Nat → Option (List (Table × Dict F) × PNet F)
    | [], _, _ => none
    | (m, ch) :: _, 0, rest => (pathLevels ch rest).map fun r => ((m, ch.defaults) :: r.1, r.2)
    | _ :: more, i + 1, rest => pathLevelsList more i rest

omit [Scalar F] in
theorem dictAtList_spec (path : List Nat)
    (ih : ∀ (t : PNet F) (d e : Dict F), dictAt d t path = some e →
      ∃ levels o, pathLevels t path = some (levels, o) ∧ resolve o e = descend (resolve t d) levels)
    (children : List (Table × PNet F)) (i : Nat) (d' e : Dict F)
    (h : dictAtList d' children i path = some e) :
    ∃ m ch levels o, pathLevels.pathLevelsList children i path = some ((m, ch.defaults) :: levels, o) ∧
      resolve o e = descend (resolve ch (renameFixed m d')) levels := by
  induction children generalizing i with
  | nil => simp [dictAtList] at h
  | cons mc more ihc =>
    obtain ⟨m, ch⟩ := mc
    cases i with
    | zero =>
      simp only [dictAtList] at h
      obtain ⟨levels, o, hp, hr⟩ := ih ch (renameFixed m d') e h
      exact ⟨m, ch, levels, o, by simp [pathLevels.pathLevelsList, hp], hr⟩
    | succ i =>
      simp only [dictAtList] at h
      obtain ⟨m', ch', levels, o, hp, hr⟩ := ihc i h
      exact ⟨m', ch', levels, o, by simpa [pathLevels.pathLevelsList] using hp, hr⟩

omit [Scalar F] in
/-- **the composed model routes parameters as `descend` does**: the dictionary that reaches the object at the end of a path,
resolved there, is `descend` of the root's resolved dictionary along the (table, defaults) pairs of the path -/
theorem dictAt_descend (path : List Nat) : ∀ (t : PNet F) (d e : Dict F), dictAt d t path = some e →
    ∃ levels o, pathLevels t path = some (levels, o) ∧ resolve o e = descend (resolve t d) levels := by
  induction path with
  | nil =>
    intro t d e h
    have hd : d = e := by cases t <;> simpa [dictAt] using h
    subst hd
    exact ⟨[], t, by cases t <;> simp [pathLevels], by simp [descend]⟩
  | cons i rest ih =>
    intro t d e h
    cases t with
    | leaf => simp [dictAt] at h
    | node children links exposed =>
      simp only [dictAt] at h
      obtain ⟨m, ch, levels, o, hp, hr⟩ := dictAtList_spec rest ih children i _ e h
      refine ⟨(m, ch.defaults) :: levels, o, by simpa [pathLevels] using hp, ?_⟩
      rw [hr]
      simp [descend, resolve, defaults]

/-- the value a leaf is evaluated at: what `descend` delivers under the leaf's parameter name, else the leaf's own default -/
theorem leaf_value (pins idx) (S0 S1 : Mat F) (param : String) (dflt : F) (d : Dict F) :
    inst d (.leaf pins idx S0 S1 param dflt) =
      .leaf { pins := pins, idx := idx, S := affine S0 S1 ((d.get? param).getD dflt) } := by
  simp [inst]

end PNet
