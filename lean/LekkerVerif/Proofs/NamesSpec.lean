import LekkerVerif.Model.Names

/-! `update_pins` accepts a pin set exactly when no two pins print alike; the table then resolves every name to
the unique pin that prints so. -/

namespace Names

theorem buildTable_fold (pins : List PinN) : ∀ (t : List (String × PinN)), (t.map (·.1)).Nodup →
    pins.foldl (fun acc p => acc.bind fun t => if t.any (·.1 == p.name) then none else some (t ++ [(p.name, p)])) (some t)
      = if ((t.map (·.1)) ++ pins.map PinN.name).Nodup then some (t ++ pins.map fun p => (p.name, p)) else none := by
  induction pins with
  | nil => intro t ht; simp [ht]
  | cons p ps ih =>
    intro t ht
    rw [List.foldl_cons]
    by_cases hin : t.any (·.1 == p.name) = true
    · -- the name is taken: the fold stays `none`
      have hnone : ∀ l : List PinN, l.foldl (fun acc p => acc.bind fun t => if t.any (·.1 == p.name) then none else some (t ++ [(p.name, p)])) (none : Option (List (String × PinN))) = none := by
        intro l; induction l with
        | nil => rfl
        | cons a l ih => simpa using ih
      have : ¬ ((t.map (·.1)) ++ (p :: ps).map PinN.name).Nodup := by
        intro nd
        rw [List.nodup_append] at nd
        obtain ⟨e, he, hee⟩ := List.any_eq_true.1 hin
        exact nd.2.2 e.1 (List.mem_map.2 ⟨e, he, rfl⟩) p.name (by simp) (by simpa using hee)
      simp only [Option.bind_some, hin, ↓reduceIte, this]
      exact hnone ps
    · have hin' : t.any (·.1 == p.name) = false := by
        cases h : t.any (·.1 == p.name) with
        | true => exact absurd h hin
        | false => rfl
      have hfresh : p.name ∉ t.map (·.1) := by
        intro h
        obtain ⟨e, he, hee⟩ := List.mem_map.1 h
        have := List.any_eq_false.1 hin' e he
        exact this (by simpa using hee)
      have ht' : ((t ++ [(p.name, p)]).map (·.1)).Nodup := by
        rw [List.map_append, List.nodup_append]
        refine ⟨ht, by simp, ?_⟩
        intro a ha b hb e
        have : b = p.name := by simpa using hb
        subst this; subst e; exact hfresh ha
      simp only [Option.bind_some, hin', Bool.false_eq_true, ↓reduceIte]
      rw [ih (t ++ [(p.name, p)]) ht']
      have e1 : ((t ++ [(p.name, p)]).map (·.1)) ++ ps.map PinN.name = (t.map (·.1)) ++ (p :: ps).map PinN.name := by simp
      have e2 : (t ++ [(p.name, p)]) ++ ps.map (fun p => (p.name, p)) = t ++ (p :: ps).map (fun p => (p.name, p)) := by simp
      rw [e1, e2]

/-- **`update_pins` accepts exactly the pin sets without two pins that print alike**, and then lists every pin under its name -/
theorem buildTable_spec (pins : List PinN) :
    buildTable pins = if (pins.map PinN.name).Nodup then some (pins.map fun p => (p.name, p)) else none := by
  unfold buildTable
  rw [buildTable_fold pins [] (by simp)]
  simp

theorem name_inj (pins : List PinN) (nd : (pins.map PinN.name).Nodup) (p q : PinN) (hp : p ∈ pins) (hq : q ∈ pins)
    (h : p.name = q.name) : p = q := by
  induction pins with
  | nil => cases hp
  | cons a t ih =>
    rw [List.map_cons, List.nodup_cons] at nd
    rcases List.mem_cons.1 hp with rfl | hp' <;> rcases List.mem_cons.1 hq with rfl | hq'
    · rfl
    · exact absurd (List.mem_map.2 ⟨q, hq', h.symm⟩) nd.1
    · exact absurd (List.mem_map.2 ⟨p, hp', h⟩) nd.1
    · exact ih nd.2 hp' hq'

/-- two distinct pins that print alike are rejected -/
theorem buildTable_rejects (pins : List PinN) (p q : PinN) (hp : p ∈ pins) (hq : q ∈ pins) (hne : p ≠ q)
    (hname : p.name = q.name) : buildTable pins = none := by
  rw [buildTable_spec]
  have : ¬ (pins.map PinN.name).Nodup := fun nd => hne (name_inj pins nd p q hp hq hname)
  simp [this]

/-- in an accepted table a name resolves to a pin exactly when that pin is present and prints so -/
theorem resolve_iff (pins : List PinN) (t : List (String × PinN)) (h : buildTable pins = some t) (n : String) (p : PinN) :
    resolve t n = some p ↔ (p ∈ pins ∧ p.name = n) := by
  rw [buildTable_spec] at h
  have nd : (pins.map PinN.name).Nodup := by
    apply Classical.byContradiction; intro nd; simp [nd] at h
  simp only [nd, ↓reduceIte, Option.some.injEq] at h
  subst h
  unfold resolve
  constructor
  · intro hr
    cases hf : (pins.map fun p => (p.name, p)).find? (·.1 == n) with
    | none => rw [hf] at hr; cases hr
    | some e =>
      rw [hf] at hr
      have he := List.mem_of_find?_eq_some hf
      have hn : e.1 = n := by simpa using List.find?_some hf
      obtain ⟨q, hq, rfl⟩ := List.mem_map.1 he
      have : q = p := by simpa using hr
      subst this
      exact ⟨hq, hn⟩
  · rintro ⟨hp, hn⟩
    cases hf : (pins.map fun p => (p.name, p)).find? (·.1 == n) with
    | none =>
      rw [List.find?_eq_none] at hf
      exact absurd (by simpa using hn) (hf (p.name, p) (List.mem_map.2 ⟨p, hp, rfl⟩))
    | some e =>
      have he := List.mem_of_find?_eq_some hf
      have hn' : e.1 = n := by simpa using List.find?_some hf
      obtain ⟨q, hq, rfl⟩ := List.mem_map.1 he
      have : q = p := name_inj pins nd q p hq hp (hn'.trans hn.symm)
      subst this
      rfl

end Names
