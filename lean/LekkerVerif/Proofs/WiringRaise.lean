import LekkerVerif.Model.Wiring

/-! Properties of `Solver.maps_all_pins` ("raise all pins") as transcribed in `Wiring.raiseLoop` / `Wiring.raiseAll`.

The mapping is only ever extended at the end; new entries expose scanned pins under their own names; on success
every scanned pin is exposed; names and pins stay unambiguous; the loop rejects exactly on a genuine name clash;
and a name that was already mapped keeps pointing at its pin, in every outcome.  Core Lean only. -/

namespace Wiring

/-! ### helpers -/

theorem any_snd_true {m : List (Nat × Pin)} {p : Pin} :
    m.any (·.2 == p) = true ↔ ∃ e ∈ m, e.2 = p := by
  simp [List.any_eq_true]

theorem any_snd_false {m : List (Nat × Pin)} {p : Pin} :
    m.any (·.2 == p) = false ↔ ∀ e ∈ m, e.2 ≠ p := by
  simp [List.any_eq_false]

theorem any_fst_true {m : List (Nat × Pin)} {n : Nat} :
    m.any (·.1 == n) = true ↔ ∃ e ∈ m, e.1 = n := by
  simp [List.any_eq_true]

theorem any_fst_false {m : List (Nat × Pin)} {n : Nat} :
    m.any (·.1 == n) = false ↔ ∀ e ∈ m, e.1 ≠ n := by
  simp [List.any_eq_false]

/-- the three branches of one loop iteration -/
theorem raiseLoop_cons_skip {nameOf : Pin → Nat} {p : Pin} {ps : List Pin} {m : List (Nat × Pin)}
    (h : m.any (·.2 == p) = true) : raiseLoop nameOf (p :: ps) m = raiseLoop nameOf ps m := by
  simp only [raiseLoop, h, if_true]

theorem raiseLoop_cons_clash {nameOf : Pin → Nat} {p : Pin} {ps : List Pin} {m : List (Nat × Pin)}
    (h1 : m.any (·.2 == p) = false) (h2 : m.any (·.1 == nameOf p) = true) :
    raiseLoop nameOf (p :: ps) m = (m, .exception) := by
  simp [raiseLoop, h1, h2]

theorem raiseLoop_cons_add {nameOf : Pin → Nat} {p : Pin} {ps : List Pin} {m : List (Nat × Pin)}
    (h1 : m.any (·.2 == p) = false) (h2 : m.any (·.1 == nameOf p) = false) :
    raiseLoop nameOf (p :: ps) m = raiseLoop nameOf ps (m ++ [(nameOf p, p)]) := by
  simp [raiseLoop, h1, h2]

/-! ### 1. the mapping is only extended at the end -/

theorem raiseLoop_prefix (nameOf : Pin → Nat) (ps : List Pin) (m : List (Nat × Pin)) :
    ∃ added, (raiseLoop nameOf ps m).1 = m ++ added := by
  induction ps generalizing m with
  | nil => exact ⟨[], by simp [raiseLoop]⟩
  | cons p ps ih =>
    cases h1 : m.any (·.2 == p) with
    | true => rw [raiseLoop_cons_skip h1]; exact ih m
    | false =>
      cases h2 : m.any (·.1 == nameOf p) with
      | true => rw [raiseLoop_cons_clash h1 h2]; exact ⟨[], by simp⟩
      | false =>
        rw [raiseLoop_cons_add h1 h2]
        obtain ⟨a, ha⟩ := ih (m ++ [(nameOf p, p)])
        exact ⟨(nameOf p, p) :: a, by rw [ha]; simp⟩

theorem raiseLoop_keeps (nameOf : Pin → Nat) (ps : List Pin) (m : List (Nat × Pin)) :
    ∀ e ∈ m, e ∈ (raiseLoop nameOf ps m).1 := by
  intro e he
  obtain ⟨a, ha⟩ := raiseLoop_prefix nameOf ps m
  rw [ha]
  exact List.mem_append_left _ he

theorem raiseAll_mapping (nameOf : Pin → Nat) (w : W) :
    (raiseAll nameOf w).1.mapping = (raiseLoop nameOf w.free w.mapping).1 := rfl

theorem raiseAll_out (nameOf : Pin → Nat) (w : W) :
    (raiseAll nameOf w).2 = (raiseLoop nameOf w.free w.mapping).2 := rfl

theorem raiseAll_keeps_mapping (nameOf : Pin → Nat) (w : W) :
    ∀ e ∈ w.mapping, e ∈ (raiseAll nameOf w).1.mapping := by
  intro e he
  rw [raiseAll_mapping]
  exact raiseLoop_keeps nameOf w.free w.mapping e he

/-- the mapping of the result extends the old one at the end (list form of the corollary) -/
theorem raiseAll_mapping_prefix (nameOf : Pin → Nat) (w : W) :
    ∃ added, (raiseAll nameOf w).1.mapping = w.mapping ++ added := by
  rw [raiseAll_mapping]
  exact raiseLoop_prefix nameOf w.free w.mapping

theorem raiseAll_only_mapping (nameOf : Pin → Nat) (w : W) :
    let w' := (raiseAll nameOf w).1
    w'.heap = w.heap ∧ w'.structs = w.structs ∧ w'.conns = w.conns ∧ w'.clist = w.clist ∧ w'.free = w.free :=
  ⟨rfl, rfl, rfl, rfl, rfl⟩

/-! ### 2. every new entry exposes a scanned pin under its own name -/

theorem raiseLoop_added_own_name (nameOf : Pin → Nat) (ps : List Pin) (m : List (Nat × Pin)) :
    ∀ e ∈ (raiseLoop nameOf ps m).1, e ∈ m ∨ (e.2 ∈ ps ∧ e.1 = nameOf e.2) := by
  induction ps generalizing m with
  | nil => intro e he; left; simpa [raiseLoop] using he
  | cons p ps ih =>
    intro e
    cases h1 : m.any (·.2 == p) with
    | true =>
      rw [raiseLoop_cons_skip h1]
      intro he
      rcases ih m e he with h | ⟨h, h'⟩
      · exact Or.inl h
      · exact Or.inr ⟨List.mem_cons_of_mem _ h, h'⟩
    | false =>
      cases h2 : m.any (·.1 == nameOf p) with
      | true => rw [raiseLoop_cons_clash h1 h2]; intro he; exact Or.inl he
      | false =>
        rw [raiseLoop_cons_add h1 h2]
        intro he
        rcases ih (m ++ [(nameOf p, p)]) e he with h | ⟨h, h'⟩
        · rcases List.mem_append.1 h with h | h
          · exact Or.inl h
          · have : e = (nameOf p, p) := by simpa using h
            subst this
            exact Or.inr ⟨List.mem_cons_self, rfl⟩
        · exact Or.inr ⟨List.mem_cons_of_mem _ h, h'⟩

theorem raiseAll_added_own_name (nameOf : Pin → Nat) (w : W) :
    ∀ e ∈ (raiseAll nameOf w).1.mapping, e ∈ w.mapping ∨ (e.2 ∈ w.free ∧ e.1 = nameOf e.2) := by
  rw [raiseAll_mapping]
  exact raiseLoop_added_own_name nameOf w.free w.mapping

/-! ### 3. on success every scanned pin is exposed -/

theorem raiseLoop_ok_covers (nameOf : Pin → Nat) (ps : List Pin) (m : List (Nat × Pin))
    (h : (raiseLoop nameOf ps m).2 = .ok) : ∀ p ∈ ps, ∃ e ∈ (raiseLoop nameOf ps m).1, e.2 = p := by
  induction ps generalizing m with
  | nil => intro p hp; cases hp
  | cons p ps ih =>
    cases h1 : m.any (·.2 == p) with
    | true =>
      rw [raiseLoop_cons_skip h1] at h ⊢
      intro q hq
      rcases List.mem_cons.1 hq with rfl | hq
      · obtain ⟨e, he, hep⟩ := any_snd_true.1 h1
        exact ⟨e, raiseLoop_keeps nameOf ps m e he, hep⟩
      · exact ih m h q hq
    | false =>
      cases h2 : m.any (·.1 == nameOf p) with
      | true => rw [raiseLoop_cons_clash h1 h2] at h; cases h
      | false =>
        rw [raiseLoop_cons_add h1 h2] at h ⊢
        intro q hq
        rcases List.mem_cons.1 hq with rfl | hq
        · exact ⟨(nameOf q, q), raiseLoop_keeps nameOf ps _ _ (by simp), rfl⟩
        · exact ih _ h q hq

theorem raiseAll_ok_exposes_all_free (nameOf : Pin → Nat) (w : W) (h : (raiseAll nameOf w).2 = .ok) :
    ∀ p ∈ w.free, ∃ e ∈ (raiseAll nameOf w).1.mapping, e.2 = p := by
  rw [raiseAll_out] at h
  rw [raiseAll_mapping]
  exact raiseLoop_ok_covers nameOf w.free w.mapping h

/-! ### 4. names and pins stay unambiguous -/

def KeysNodup (m : List (Nat × Pin)) : Prop := (m.map (·.1)).Nodup
def PinsNodup (m : List (Nat × Pin)) : Prop := (m.map (·.2)).Nodup

theorem nodup_map_snoc {α β : Type} (f : α → β) (l : List α) (a : α)
    (h : (l.map f).Nodup) (ha : ∀ e ∈ l, f e ≠ f a) : ((l ++ [a]).map f).Nodup := by
  rw [List.map_append, List.nodup_append]
  refine ⟨h, by simp, ?_⟩
  intro x hx y hy
  obtain ⟨e, he, rfl⟩ := List.mem_map.1 hx
  have : y = f a := by simpa using hy
  subst this
  exact ha e he

theorem raiseLoop_keys_nodup (nameOf : Pin → Nat) (ps : List Pin) (m : List (Nat × Pin))
    (h : KeysNodup m) : KeysNodup (raiseLoop nameOf ps m).1 := by
  induction ps generalizing m with
  | nil => simpa [raiseLoop] using h
  | cons p ps ih =>
    cases h1 : m.any (·.2 == p) with
    | true => rw [raiseLoop_cons_skip h1]; exact ih m h
    | false =>
      cases h2 : m.any (·.1 == nameOf p) with
      | true => rw [raiseLoop_cons_clash h1 h2]; exact h
      | false =>
        rw [raiseLoop_cons_add h1 h2]
        apply ih
        exact nodup_map_snoc (fun e : Nat × Pin => e.1) m (nameOf p, p) h (any_fst_false.1 h2)

theorem raiseLoop_pins_nodup (nameOf : Pin → Nat) (ps : List Pin) (m : List (Nat × Pin))
    (h : PinsNodup m) : PinsNodup (raiseLoop nameOf ps m).1 := by
  induction ps generalizing m with
  | nil => simpa [raiseLoop] using h
  | cons p ps ih =>
    cases h1 : m.any (·.2 == p) with
    | true => rw [raiseLoop_cons_skip h1]; exact ih m h
    | false =>
      cases h2 : m.any (·.1 == nameOf p) with
      | true => rw [raiseLoop_cons_clash h1 h2]; exact h
      | false =>
        rw [raiseLoop_cons_add h1 h2]
        apply ih
        exact nodup_map_snoc (fun e : Nat × Pin => e.2) m (nameOf p, p) h (any_snd_false.1 h1)

theorem raiseAll_keys_nodup (nameOf : Pin → Nat) (w : W) (h : KeysNodup w.mapping) :
    KeysNodup (raiseAll nameOf w).1.mapping := by
  rw [raiseAll_mapping]; exact raiseLoop_keys_nodup nameOf w.free w.mapping h

theorem raiseAll_pins_nodup (nameOf : Pin → Nat) (w : W) (h : PinsNodup w.mapping) :
    PinsNodup (raiseAll nameOf w).1.mapping := by
  rw [raiseAll_mapping]; exact raiseLoop_pins_nodup nameOf w.free w.mapping h

/-! ### 5. rejection exactly on a genuine clash -/

/-- (a) raise-all never ends in a ValueError -/
theorem raiseLoop_not_valueError (nameOf : Pin → Nat) (ps : List Pin) (m : List (Nat × Pin)) :
    (raiseLoop nameOf ps m).2 ≠ .valueError := by
  induction ps generalizing m with
  | nil => simp [raiseLoop]
  | cons p ps ih =>
    cases h1 : m.any (·.2 == p) with
    | true => rw [raiseLoop_cons_skip h1]; exact ih m
    | false =>
      cases h2 : m.any (·.1 == nameOf p) with
      | true => rw [raiseLoop_cons_clash h1 h2]; simp
      | false => rw [raiseLoop_cons_add h1 h2]; exact ih _

/-- (b) an exception is a genuine clash: a scanned pin that is not exposed in the final mapping while its own name
is a key of the final mapping -/
theorem raiseLoop_exception_clash (nameOf : Pin → Nat) (ps : List Pin) (m : List (Nat × Pin))
    (h : (raiseLoop nameOf ps m).2 = .exception) :
    ∃ p ∈ ps, ¬ (∃ e ∈ (raiseLoop nameOf ps m).1, e.2 = p) ∧ ∃ e ∈ (raiseLoop nameOf ps m).1, e.1 = nameOf p := by
  induction ps generalizing m with
  | nil => simp [raiseLoop] at h
  | cons p ps ih =>
    cases h1 : m.any (·.2 == p) with
    | true =>
      rw [raiseLoop_cons_skip h1] at h ⊢
      obtain ⟨q, hq, hq'⟩ := ih m h
      exact ⟨q, List.mem_cons_of_mem _ hq, hq'⟩
    | false =>
      cases h2 : m.any (·.1 == nameOf p) with
      | true =>
        rw [raiseLoop_cons_clash h1 h2]
        refine ⟨p, List.mem_cons_self, ?_, any_fst_true.1 h2⟩
        rintro ⟨e, he, hep⟩
        exact any_snd_false.1 h1 e he hep
      | false =>
        rw [raiseLoop_cons_add h1 h2] at h ⊢
        obtain ⟨q, hq, hq'⟩ := ih _ h
        exact ⟨q, List.mem_cons_of_mem _ hq, hq'⟩

/-- (c) on success there is no such pin (every scanned pin is exposed) -/
theorem raiseLoop_ok_no_clash (nameOf : Pin → Nat) (ps : List Pin) (m : List (Nat × Pin))
    (h : (raiseLoop nameOf ps m).2 = .ok) :
    ¬ ∃ p ∈ ps, ¬ (∃ e ∈ (raiseLoop nameOf ps m).1, e.2 = p) ∧ ∃ e ∈ (raiseLoop nameOf ps m).1, e.1 = nameOf p := by
  rintro ⟨p, hp, hne, _⟩
  exact hne (raiseLoop_ok_covers nameOf ps m h p hp)

/-- the exact formulation asked for.  The hypothesis `KeysNodup m` turns out not to be needed (it is kept, unused,
for the signature): the equivalence holds for every mapping. -/
theorem raiseLoop_exception_iff (nameOf : Pin → Nat) (ps : List Pin) (m : List (Nat × Pin)) (_hk : KeysNodup m) :
    (raiseLoop nameOf ps m).2 = .exception ↔
      ∃ p ∈ ps, ¬ (∃ e ∈ (raiseLoop nameOf ps m).1, e.2 = p) ∧ ∃ e ∈ (raiseLoop nameOf ps m).1, e.1 = nameOf p := by
  constructor
  · exact raiseLoop_exception_clash nameOf ps m
  · intro hc
    cases hout : (raiseLoop nameOf ps m).2 with
    | ok => exact absurd hc (raiseLoop_ok_no_clash nameOf ps m hout)
    | valueError => exact absurd hout (raiseLoop_not_valueError nameOf ps m)
    | exception => rfl

theorem raiseAll_exception_iff (nameOf : Pin → Nat) (w : W) :
    (raiseAll nameOf w).2 = .exception ↔
      ∃ p ∈ w.free, ¬ (∃ e ∈ (raiseAll nameOf w).1.mapping, e.2 = p) ∧
        ∃ e ∈ (raiseAll nameOf w).1.mapping, e.1 = nameOf p := by
  rw [raiseAll_out, raiseAll_mapping]
  constructor
  · exact raiseLoop_exception_clash nameOf w.free w.mapping
  · intro hc
    cases hout : (raiseLoop nameOf w.free w.mapping).2 with
    | ok => exact absurd hc (raiseLoop_ok_no_clash nameOf _ _ hout)
    | valueError => exact absurd hout (raiseLoop_not_valueError nameOf _ _)
    | exception => rfl

theorem raiseAll_not_valueError (nameOf : Pin → Nat) (w : W) : (raiseAll nameOf w).2 ≠ .valueError := by
  rw [raiseAll_out]; exact raiseLoop_not_valueError nameOf w.free w.mapping

/-! ### 6. a mapped name is never rebound -/

theorem keysNodup_functional {m : List (Nat × Pin)} (h : KeysNodup m) {n : Nat} {p q : Pin}
    (hp : (n, p) ∈ m) (hq : (n, q) ∈ m) : q = p := by
  induction m with
  | nil => cases hp
  | cons e m ih =>
    have hnd : e.1 ∉ m.map (·.1) ∧ (m.map (·.1)).Nodup := by
      simpa [KeysNodup, List.nodup_cons] using h
    have key : ∀ r, (n, r) ∈ m → n ∈ m.map (·.1) := fun r hr => List.mem_map.2 ⟨(n, r), hr, rfl⟩
    rcases List.mem_cons.1 hp with hp' | hp' <;> rcases List.mem_cons.1 hq with hq' | hq'
    · rw [← hp'] at hq'; exact (Prod.mk.inj hq').2
    · subst hp'; exact absurd (key q hq') hnd.1
    · subst hq'; exact absurd (key p hp') hnd.1
    · exact ih hnd.2 hp' hq'

theorem raiseLoop_never_rebinds (nameOf : Pin → Nat) (ps : List Pin) (m : List (Nat × Pin)) (hk : KeysNodup m) :
    ∀ n p, (n, p) ∈ m → ∀ q, (n, q) ∈ (raiseLoop nameOf ps m).1 → q = p := by
  intro n p hp q hq
  exact keysNodup_functional (raiseLoop_keys_nodup nameOf ps m hk) (raiseLoop_keeps nameOf ps m _ hp) hq

theorem raiseAll_never_rebinds (nameOf : Pin → Nat) (w : W) (hk : KeysNodup w.mapping) :
    ∀ n p, (n, p) ∈ w.mapping → ∀ q, (n, q) ∈ (raiseAll nameOf w).1.mapping → q = p := by
  rw [raiseAll_mapping]
  exact raiseLoop_never_rebinds nameOf w.free w.mapping hk

/-! ### 7. non-vacuity -/

/-- a pin's own name is its pin id: pins of different structures share names -/
def exName : Pin → Nat := fun p => p.2

/-- two structures; name 1 was mapped by hand to pin (0,0); the free pin (0,1) has 1 as its own name -/
def exClash : W :=
  { heap := [], structs := [0, 1], conns := [], clist := [],
    free := [(0, 2), (0, 0), (0, 1), (1, 3)], mapping := [(1, (0, 0))] }

/-- raise-all is rejected; the hand mapping is intact; the entry written before the clash stays; the pin after the
clash is not reached -/
example : raiseAll exName exClash = ({ exClash with mapping := [(1, (0, 0)), (2, (0, 2))] }, .exception) := by decide
example : (raiseAll exName exClash).2 = .exception ∧ (1, (0, 0)) ∈ (raiseAll exName exClash).1.mapping ∧
    ¬ (1, (0, 1)) ∈ (raiseAll exName exClash).1.mapping := by decide
example : KeysNodup exClash.mapping := by unfold KeysNodup; decide

/-- the same state with the hand-made name out of the way: raise-all succeeds and exposes every free pin -/
def exFine : W := { exClash with mapping := [(7, (0, 0))] }

example : raiseAll exName exFine =
    ({ exFine with mapping := [(7, (0, 0)), (2, (0, 2)), (1, (0, 1)), (3, (1, 3))] }, .ok) := by decide
example : (raiseAll exName exFine).2 = .ok ∧ (7, (0, 0)) ∈ (raiseAll exName exFine).1.mapping := by decide

/-- two free pins of different structures with the same own name: the second one is rejected -/
example : (raiseLoop exName [(0, 5), (1, 5)] []) = ([(5, (0, 5))], .exception) := by decide

end Wiring
