import Mathlib.Analysis.SpecialFunctions.Complex.Circle
import Mathlib.Analysis.SpecialFunctions.Pow.Real
import Mathlib.Analysis.SpecialFunctions.Trigonometric.Basic
import Mathlib.LinearAlgebra.Matrix.Notation
import Mathlib.Data.Matrix.Mul
import Mathlib.Tactic.FinCases

/-! Closed forms of the documented library blocks over ℝ/ℂ, written in the shape of the source expressions
(`Properties/C09.lean` pins the source text of each block to the expression modelled here), and their physics:
phases, power ratios, unitarity of the lossless blocks, passivity of the lossy ones. -/

open Matrix Complex

namespace Blocks

/-- a unit-modulus phase factor `exp(i x)` for real `x` -/
theorem conj_exp_mul (x : ℝ) : (starRingEnd ℂ) (cexp ((x : ℂ) * I)) * cexp ((x : ℂ) * I) = 1 := by
  rw [mul_comm, Complex.mul_conj, Complex.normSq_eq_norm_sq, Complex.norm_exp_ofReal_mul_I]; simp

theorem normSq_exp_mul (x : ℝ) : Complex.normSq (cexp ((x : ℂ) * I)) = 1 := by
  rw [Complex.normSq_eq_norm_sq, Complex.norm_exp_ofReal_mul_I]; simp

/-- reflection-free reciprocal two-port with transmission `e` -/
def antidiag (e : ℂ) : Matrix (Fin 2) (Fin 2) ℂ := !![0, e; e, 0]

theorem antidiag_unitary (e : ℂ) (he : (starRingEnd ℂ) e * e = 1) : (antidiag e)ᴴ * antidiag e = 1 := by
  ext i j
  fin_cases i <;> fin_cases j <;>
    simp [antidiag, Matrix.mul_apply, Fin.sum_univ_two, Matrix.conjTranspose_apply, he]

theorem antidiag_symm (e : ℂ) : (antidiag e)ᵀ = antidiag e := by
  ext i j; fin_cases i <;> fin_cases j <;> simp [antidiag]

/-! ### Waveguide, PhaseShifter, TH_PhaseShifter -/

/-- `S[0,1] = S[1,0] = np.exp(2.0j * np.pi * n / wl * self.L)` -/
noncomputable def waveguide (L n wl : ℝ) : Matrix (Fin 2) (Fin 2) ℂ := antidiag (cexp (2 * I * Real.pi * n / wl * L))

theorem waveguide_phase (L n wl : ℝ) :
    waveguide L n wl 0 1 = cexp (((2 * Real.pi * n * L / wl : ℝ) : ℂ) * I) ∧ waveguide L n wl 1 0 = waveguide L n wl 0 1 ∧
    waveguide L n wl 0 0 = 0 ∧ waveguide L n wl 1 1 = 0 := by
  refine ⟨?_, rfl, rfl, rfl⟩
  simp only [waveguide, antidiag, Matrix.of_apply, Matrix.cons_val', Matrix.cons_val_one, Matrix.cons_val_zero]
  congr 1; push_cast; ring

theorem waveguide_unitary (L n wl : ℝ) : (waveguide L n wl)ᴴ * waveguide L n wl = 1 := by
  apply antidiag_unitary
  have : (2 * I * Real.pi * n / wl * L : ℂ) = ((2 * Real.pi * n / wl * L : ℝ) : ℂ) * I := by push_cast; ring
  rw [this]; exact conj_exp_mul _

/-- `np.exp(1.0j * np.pi * PS)` -/
noncomputable def phaseShifter (ps : ℝ) : Matrix (Fin 2) (Fin 2) ℂ := antidiag (cexp (I * Real.pi * ps))

theorem phaseShifter_phase (ps : ℝ) : phaseShifter ps 0 1 = cexp (((Real.pi * ps : ℝ) : ℂ) * I) := by
  simp only [phaseShifter, antidiag, Matrix.of_apply, Matrix.cons_val', Matrix.cons_val_one, Matrix.cons_val_zero]
  congr 1; push_cast; ring

theorem phaseShifter_unitary (ps : ℝ) : (phaseShifter ps)ᴴ * phaseShifter ps = 1 := by
  apply antidiag_unitary
  have : (I * Real.pi * ps : ℂ) = ((Real.pi * ps : ℝ) : ℂ) * I := by push_cast; ring
  rw [this]; exact conj_exp_mul _

/-- `np.exp(1.0j * np.pi * (2.0 * n / wl * self.L + PS))` -/
noncomputable def thPhaseShifter (L n wl ps : ℝ) : Matrix (Fin 2) (Fin 2) ℂ :=
  antidiag (cexp (I * Real.pi * (2 * n / wl * L + ps)))

theorem thPhaseShifter_phase (L n wl ps : ℝ) :
    thPhaseShifter L n wl ps 0 1 = cexp (((2 * Real.pi * n * L / wl + Real.pi * ps : ℝ) : ℂ) * I) := by
  simp only [thPhaseShifter, antidiag, Matrix.of_apply, Matrix.cons_val', Matrix.cons_val_one, Matrix.cons_val_zero]
  congr 1; push_cast; ring

theorem thPhaseShifter_unitary (L n wl ps : ℝ) : (thPhaseShifter L n wl ps)ᴴ * thPhaseShifter L n wl ps = 1 := by
  apply antidiag_unitary
  have : (I * Real.pi * (2 * n / wl * L + ps) : ℂ) = ((Real.pi * (2 * n / wl * L + ps) : ℝ) : ℂ) * I := by push_cast; ring
  rw [this]; exact conj_exp_mul _

/-! ### Attenuator, LinearAttenuator -/

/-- `S[0,1] = S[1,0] = 10.0 ** (-0.05 * loss)` -/
noncomputable def attenuator (loss : ℝ) : Matrix (Fin 2) (Fin 2) ℂ := antidiag (((10 : ℝ) ^ (-(5 / 100 : ℝ) * loss) : ℝ) : ℂ)

theorem attenuator_power (loss : ℝ) : Complex.normSq (attenuator loss 0 1) = (10 : ℝ) ^ (-loss / 10) := by
  simp only [attenuator, antidiag, Matrix.of_apply, Matrix.cons_val', Matrix.cons_val_one, Matrix.cons_val_zero,
    Complex.normSq_ofReal]
  rw [← Real.rpow_add (by norm_num : (0 : ℝ) < 10)]
  congr 1; ring

theorem attenuator_passive (loss : ℝ) (h : 0 ≤ loss) : Complex.normSq (attenuator loss 0 1) ≤ 1 := by
  rw [attenuator_power]
  apply Real.rpow_le_one_of_one_le_of_nonpos (by norm_num)
  linarith

/-- `S[0,1] = S[1,0] = np.sqrt(c)` -/
noncomputable def linearAttenuator (c : ℝ) : Matrix (Fin 2) (Fin 2) ℂ := antidiag ((Real.sqrt c : ℝ) : ℂ)

theorem linearAttenuator_power (c : ℝ) (h : 0 ≤ c) : Complex.normSq (linearAttenuator c 0 1) = c := by
  simp [linearAttenuator, antidiag, Complex.normSq_ofReal, Real.mul_self_sqrt h]

theorem linearAttenuator_passive (c : ℝ) (h0 : 0 ≤ c) (h1 : c ≤ 1) : Complex.normSq (linearAttenuator c 0 1) ≤ 1 := by
  rw [linearAttenuator_power c h0]; exact h1

/-! ### Mirror, PerfectMirror -/

/-- `[[t * exp(1j * p1), c], [-c, t * exp(-1j * p1)]]`, `t = sqrt(ref)`, `c = sqrt(1 - ref)`, `p1 = pi * phase` -/
noncomputable def mirror (ref phase : ℝ) : Matrix (Fin 2) (Fin 2) ℂ :=
  let t : ℂ := (Real.sqrt ref : ℝ)
  let c : ℂ := (Real.sqrt (1 - ref) : ℝ)
  !![t * cexp (I * (Real.pi * phase)), c; -c, t * cexp (-I * (Real.pi * phase))]

theorem mirror_power (ref phase : ℝ) (h0 : 0 ≤ ref) (h1 : ref ≤ 1) :
    Complex.normSq (mirror ref phase 0 0) = ref ∧ Complex.normSq (mirror ref phase 1 1) = ref ∧
    Complex.normSq (mirror ref phase 0 1) = 1 - ref ∧ Complex.normSq (mirror ref phase 1 0) = 1 - ref := by
  have e1 : Complex.normSq (cexp (I * (Real.pi * phase))) = 1 := by
    have : (I * (Real.pi * phase) : ℂ) = ((Real.pi * phase : ℝ) : ℂ) * I := by push_cast; ring
    rw [this]; exact normSq_exp_mul _
  have e2 : Complex.normSq (cexp (-(I * (Real.pi * phase)))) = 1 := by
    have : (-(I * (Real.pi * phase)) : ℂ) = ((-(Real.pi * phase) : ℝ) : ℂ) * I := by push_cast; ring
    rw [this]; exact normSq_exp_mul _
  have h1' : 0 ≤ 1 - ref := by linarith
  refine ⟨?_, ?_, ?_, ?_⟩ <;>
    simp [mirror, Complex.normSq_mul, e1, e2, Complex.normSq_ofReal, Real.mul_self_sqrt h0, Real.mul_self_sqrt h1']

/-- `[[np.exp(1.0j * p1)]]` -/
noncomputable def perfectMirror (phase : ℝ) : Matrix (Fin 1) (Fin 1) ℂ := !![cexp (I * (Real.pi * phase))]

theorem perfectMirror_unit (phase : ℝ) : Complex.normSq (perfectMirror phase 0 0) = 1 := by
  have : (I * (Real.pi * phase) : ℂ) = ((Real.pi * phase : ℝ) : ℂ) * I := by push_cast; ring
  simp only [perfectMirror, Matrix.of_apply, Matrix.cons_val', Matrix.cons_val_zero, Matrix.cons_val_fin_one]
  rw [this]; exact normSq_exp_mul _

/-! ### PushPullPhaseShifter, BeamSplitter, PolRot, Splitter1x2 -/

/-- two independent reflection-free two-ports side by side -/
def twoArms (a b : ℂ) : Matrix (Fin 4) (Fin 4) ℂ := !![0, a, 0, 0; a, 0, 0, 0; 0, 0, 0, b; 0, 0, b, 0]

theorem twoArms_unitary (a b : ℂ) (ha : (starRingEnd ℂ) a * a = 1) (hb : (starRingEnd ℂ) b * b = 1) :
    (twoArms a b)ᴴ * twoArms a b = 1 := by
  ext i j
  fin_cases i <;> fin_cases j <;>
    simp [twoArms, Matrix.mul_apply, Fin.sum_univ_four, Matrix.conjTranspose_apply, ha, hb]

/-- `diag_blocks([S1, S2])`, `S1[0,1] = S1[1,0] = exp(0.5j*pi*PS)`, `S2[0,1] = S2[1,0] = exp(-0.5j*pi*PS)` -/
noncomputable def pushPull (ps : ℝ) : Matrix (Fin 4) (Fin 4) ℂ :=
  twoArms (cexp ((1 / 2 : ℂ) * I * Real.pi * ps)) (cexp (-(1 / 2 : ℂ) * I * Real.pi * ps))

theorem pushPull_phase (ps : ℝ) :
    pushPull ps 0 1 = cexp (((Real.pi * ps / 2 : ℝ) : ℂ) * I) ∧ pushPull ps 2 3 = cexp (((-(Real.pi * ps / 2) : ℝ) : ℂ) * I) := by
  constructor
  · show cexp ((1 / 2 : ℂ) * I * Real.pi * ps) = _
    congr 1; push_cast; ring
  · show cexp (-(1 / 2 : ℂ) * I * Real.pi * ps) = _
    congr 1; push_cast; ring

theorem pushPull_unitary (ps : ℝ) : (pushPull ps)ᴴ * pushPull ps = 1 := by
  have a1 : ((1 / 2 : ℂ) * I * Real.pi * ps) = ((Real.pi * ps / 2 : ℝ) : ℂ) * I := by push_cast; ring
  have a2 : (-(1 / 2 : ℂ) * I * Real.pi * ps) = ((-(Real.pi * ps / 2) : ℝ) : ℂ) * I := by push_cast; ring
  apply twoArms_unitary
  · rw [a1]; exact conj_exp_mul _
  · rw [a2]; exact conj_exp_mul _

/-- a symmetric four-port coupler: through coefficient `p`, cross coefficient `q`, no reflection -/
def coupler (p q : ℂ) : Matrix (Fin 4) (Fin 4) ℂ := !![0, 0, p, q; 0, 0, q, p; p, q, 0, 0; q, p, 0, 0]

theorem coupler_unitary (p q : ℂ) (h1 : (starRingEnd ℂ) p * p + (starRingEnd ℂ) q * q = 1)
    (h2 : (starRingEnd ℂ) p * q + (starRingEnd ℂ) q * p = 0) : (coupler p q)ᴴ * coupler p q = 1 := by
  ext i j
  fin_cases i <;> fin_cases j <;>
    simp [coupler, Matrix.mul_apply, Fin.sum_univ_four, Matrix.conjTranspose_apply] <;>
    first
    | linear_combination h1
    | linear_combination h2

/-- BeamSplitter with `t = None`: `exp(2j*pi*phase) * [[t, c], [c, t]]` in the two off-diagonal blocks,
`c = 1j*sqrt(ratio)`, `t = sqrt(1 - ratio)` -/
noncomputable def beamSplitter (ratio phase : ℝ) : Matrix (Fin 4) (Fin 4) ℂ :=
  coupler (cexp (2 * I * Real.pi * phase) * ((Real.sqrt (1 - ratio) : ℝ) : ℂ))
          (cexp (2 * I * Real.pi * phase) * (I * ((Real.sqrt ratio : ℝ) : ℂ)))

theorem beamSplitter_power (ratio phase : ℝ) (h0 : 0 ≤ ratio) (h1 : ratio ≤ 1) :
    Complex.normSq (beamSplitter ratio phase 0 2) = 1 - ratio ∧ Complex.normSq (beamSplitter ratio phase 0 3) = ratio ∧
    Complex.normSq (beamSplitter ratio phase 1 2) = ratio ∧ Complex.normSq (beamSplitter ratio phase 1 3) = 1 - ratio ∧
    beamSplitter ratio phase 0 0 = 0 ∧ beamSplitter ratio phase 0 1 = 0 ∧ beamSplitter ratio phase 2 2 = 0 ∧ beamSplitter ratio phase 2 3 = 0 := by
  have he : Complex.normSq (cexp (2 * I * Real.pi * phase)) = 1 := by
    have : (2 * I * Real.pi * phase : ℂ) = ((2 * Real.pi * phase : ℝ) : ℂ) * I := by push_cast; ring
    rw [this]; exact normSq_exp_mul _
  have h1' : 0 ≤ 1 - ratio := by linarith
  refine ⟨?_, ?_, ?_, ?_, rfl, rfl, rfl, rfl⟩ <;>
    simp [beamSplitter, coupler, Complex.normSq_mul, he, Complex.normSq_ofReal, Real.mul_self_sqrt h0, Real.mul_self_sqrt h1']

theorem beamSplitter_unitary (ratio phase : ℝ) (h0 : 0 ≤ ratio) (h1 : ratio ≤ 1) :
    (beamSplitter ratio phase)ᴴ * beamSplitter ratio phase = 1 := by
  have harg : (2 * I * Real.pi * phase : ℂ) = ((2 * Real.pi * phase : ℝ) : ℂ) * I := by push_cast; ring
  have h1' : 0 ≤ 1 - ratio := by linarith
  have ht : ((Real.sqrt (1 - ratio) : ℝ) : ℂ) * ((Real.sqrt (1 - ratio) : ℝ) : ℂ) = ((1 - ratio : ℝ) : ℂ) := by
    rw [← Complex.ofReal_mul, Real.mul_self_sqrt h1']
  have hc : ((Real.sqrt ratio : ℝ) : ℂ) * ((Real.sqrt ratio : ℝ) : ℂ) = ((ratio : ℝ) : ℂ) := by
    rw [← Complex.ofReal_mul, Real.mul_self_sqrt h0]
  have he' : (starRingEnd ℂ) (cexp (2 * I * Real.pi * phase)) * cexp (2 * I * Real.pi * phase) = 1 := by
    rw [harg]; exact conj_exp_mul _
  have hI : (-I) * I = 1 := by rw [neg_mul, Complex.I_mul_I]; ring
  apply coupler_unitary
  · simp only [map_mul, Complex.conj_ofReal, Complex.conj_I]
    have hsum : ((1 - ratio : ℝ) : ℂ) + ((ratio : ℝ) : ℂ) = 1 := by push_cast; ring
    linear_combination (((Real.sqrt (1 - ratio) : ℝ) : ℂ) * ((Real.sqrt (1 - ratio) : ℝ) : ℂ)
        + (-I * I) * (((Real.sqrt ratio : ℝ) : ℂ) * ((Real.sqrt ratio : ℝ) : ℂ))) * he'
      + (((Real.sqrt ratio : ℝ) : ℂ) * ((Real.sqrt ratio : ℝ) : ℂ)) * hI + ht + hc + hsum
  · simp only [map_mul, Complex.conj_ofReal, Complex.conj_I]
    ring

/-- a real rotation between two pairs of ports -/
def rot4 (c s : ℂ) : Matrix (Fin 4) (Fin 4) ℂ := !![0, 0, c, s; 0, 0, -s, c; c, -s, 0, 0; s, c, 0, 0]

theorem rot4_unitary (c s : ℂ) (hc : (starRingEnd ℂ) c = c) (hs : (starRingEnd ℂ) s = s) (h : c * c + s * s = 1) :
    (rot4 c s)ᴴ * rot4 c s = 1 := by
  ext i j
  fin_cases i <;> fin_cases j <;>
    simp [rot4, Matrix.mul_apply, Fin.sum_univ_four, Matrix.conjTranspose_apply, hc, hs] <;>
    first
    | linear_combination h
    | ring

/-- fixed or variable polarisation rotator: `S[:2,2:] = [[c, s], [-s, c]]`, `S[2:,:2] = [[c, -s], [s, c]]`,
`c = cos(pi*angle)`, `s = sin(pi*angle)` -/
noncomputable def polRot (angle : ℝ) : Matrix (Fin 4) (Fin 4) ℂ :=
  rot4 ((Real.cos (Real.pi * angle) : ℝ) : ℂ) ((Real.sin (Real.pi * angle) : ℝ) : ℂ)

theorem polRot_rotation (angle : ℝ) :
    polRot angle 0 2 = (Real.cos (Real.pi * angle) : ℝ) ∧ polRot angle 0 3 = (Real.sin (Real.pi * angle) : ℝ) ∧
    polRot angle 1 2 = -((Real.sin (Real.pi * angle) : ℝ) : ℂ) ∧ polRot angle 1 3 = (Real.cos (Real.pi * angle) : ℝ) ∧
    polRot angle 0 0 = 0 ∧ polRot angle 0 1 = 0 := ⟨rfl, rfl, rfl, rfl, rfl, rfl⟩

theorem polRot_unitary (angle : ℝ) : (polRot angle)ᴴ * polRot angle = 1 := by
  apply rot4_unitary
  · exact Complex.conj_ofReal _
  · exact Complex.conj_ofReal _
  · rw [← Complex.ofReal_mul, ← Complex.ofReal_mul, ← Complex.ofReal_add]
    have := Real.cos_sq_add_sin_sq (Real.pi * angle)
    rw [sq, sq] at this
    rw [this]; simp

/-- general 2×2 -/
theorem mat2_unitary (p q r s : ℂ)
    (h11 : (starRingEnd ℂ) p * p + (starRingEnd ℂ) r * r = 1) (h22 : (starRingEnd ℂ) q * q + (starRingEnd ℂ) s * s = 1)
    (h12 : (starRingEnd ℂ) p * q + (starRingEnd ℂ) r * s = 0) (h21 : (starRingEnd ℂ) q * p + (starRingEnd ℂ) s * r = 0) :
    (!![p, q; r, s] : Matrix (Fin 2) (Fin 2) ℂ)ᴴ * !![p, q; r, s] = 1 := by
  ext i j
  fin_cases i <;> fin_cases j <;>
    simp [Matrix.mul_apply, Fin.sum_univ_two, Matrix.conjTranspose_apply, h11, h22, h12, h21]

theorem mirror_unitary (ref phase : ℝ) (h0 : 0 ≤ ref) (h1 : ref ≤ 1) : (mirror ref phase)ᴴ * mirror ref phase = 1 := by
  have h1' : 0 ≤ 1 - ref := by linarith
  have ht : ((Real.sqrt ref : ℝ) : ℂ) * ((Real.sqrt ref : ℝ) : ℂ) = ((ref : ℝ) : ℂ) := by
    rw [← Complex.ofReal_mul, Real.mul_self_sqrt h0]
  have hc : ((Real.sqrt (1 - ref) : ℝ) : ℂ) * ((Real.sqrt (1 - ref) : ℝ) : ℂ) = ((1 - ref : ℝ) : ℂ) := by
    rw [← Complex.ofReal_mul, Real.mul_self_sqrt h1']
  have hsum : ((ref : ℝ) : ℂ) + ((1 - ref : ℝ) : ℂ) = 1 := by push_cast; ring
  -- E = exp(i x), E' = exp(-i x): conj E = E', conj E' = E, E' * E = 1
  have hE : (starRingEnd ℂ) (cexp (I * (Real.pi * phase))) = cexp (-I * (Real.pi * phase)) := by
    rw [← Complex.exp_conj]; congr 1
    simp only [map_mul, Complex.conj_ofReal, Complex.conj_I]
  have hE' : (starRingEnd ℂ) (cexp (-I * (Real.pi * phase))) = cexp (I * (Real.pi * phase)) := by
    rw [← Complex.exp_conj]; congr 1
    simp only [map_mul, map_neg, Complex.conj_ofReal, Complex.conj_I, neg_neg]
  have hEE : cexp (-I * (Real.pi * phase)) * cexp (I * (Real.pi * phase)) = 1 := by
    rw [← Complex.exp_add]; simp
  unfold mirror
  apply mat2_unitary
  · simp only [map_mul, map_neg, Complex.conj_ofReal, hE]
    linear_combination (((Real.sqrt ref : ℝ) : ℂ) * ((Real.sqrt ref : ℝ) : ℂ)) * hEE + ht + hc + hsum
  · simp only [map_mul, map_neg, Complex.conj_ofReal, hE']
    linear_combination (((Real.sqrt ref : ℝ) : ℂ) * ((Real.sqrt ref : ℝ) : ℂ)) * hEE + ht + hc + hsum
  · simp only [map_mul, map_neg, Complex.conj_ofReal, hE]
    ring
  · simp only [map_mul, map_neg, Complex.conj_ofReal, hE']
    ring

/-- `1/sqrt(2) * [[0,1,1],[1,0,0],[1,0,0]]` -/
noncomputable def splitter1x2 : Matrix (Fin 3) (Fin 3) ℂ :=
  !![0, ((1 / Real.sqrt 2 : ℝ) : ℂ), ((1 / Real.sqrt 2 : ℝ) : ℂ); ((1 / Real.sqrt 2 : ℝ) : ℂ), 0, 0; ((1 / Real.sqrt 2 : ℝ) : ℂ), 0, 0]

theorem splitter1x2_power :
    Complex.normSq (splitter1x2 1 0) = 1 / 2 ∧ Complex.normSq (splitter1x2 2 0) = 1 / 2 ∧ splitter1x2 0 0 = 0 := by
  have h2 : (1 / Real.sqrt 2) * (1 / Real.sqrt 2) = 1 / 2 := by
    rw [div_mul_div_comm, Real.mul_self_sqrt (by norm_num : (0 : ℝ) ≤ 2)]; norm_num
  refine ⟨?_, ?_, rfl⟩
  · show Complex.normSq (((1 / Real.sqrt 2 : ℝ) : ℂ)) = 1 / 2
    rw [Complex.normSq_ofReal, h2]
  · show Complex.normSq (((1 / Real.sqrt 2 : ℝ) : ℂ)) = 1 / 2
    rw [Complex.normSq_ofReal, h2]

/-- the 1×2 splitter never shows gain: `Σ |S x|² ≤ Σ |x|²` for every excitation -/
theorem splitter1x2_passive (x : Fin 3 → ℂ) :
    ∑ i, Complex.normSq ((splitter1x2 *ᵥ x) i) ≤ ∑ i, Complex.normSq (x i) := by
  have h2 : (1 / Real.sqrt 2) * (1 / Real.sqrt 2) = 1 / 2 := by
    rw [div_mul_div_comm, Real.mul_self_sqrt (by norm_num : (0 : ℝ) ≤ 2)]; norm_num
  have par : Complex.normSq (x 1 + x 2) ≤ 2 * (Complex.normSq (x 1) + Complex.normSq (x 2)) := by
    have := Complex.normSq_nonneg (x 1 - x 2)
    have e := Complex.normSq_add (x 1) (x 2)
    have e' := Complex.normSq_sub (x 1) (x 2)
    linarith
  have r0 : (splitter1x2 *ᵥ x) 0 = ((1 / Real.sqrt 2 : ℝ) : ℂ) * (x 1 + x 2) := by
    simp [splitter1x2, Matrix.mulVec, dotProduct, Fin.sum_univ_three]; ring
  have r1 : (splitter1x2 *ᵥ x) 1 = ((1 / Real.sqrt 2 : ℝ) : ℂ) * x 0 := by
    simp [splitter1x2, Matrix.mulVec, dotProduct, Fin.sum_univ_three]
  have r2 : (splitter1x2 *ᵥ x) 2 = ((1 / Real.sqrt 2 : ℝ) : ℂ) * x 0 := by
    simp [splitter1x2, Matrix.mulVec, dotProduct, Fin.sum_univ_three]
  rw [Fin.sum_univ_three, Fin.sum_univ_three, r0, r1, r2]
  simp only [Complex.normSq_mul, Complex.normSq_ofReal, h2]
  linarith [Complex.normSq_nonneg (x 0)]

/-! ### UserWaveguide (two modes), BeamSplitter with an explicit transmission -/

/-- two modes side by side, each a waveguide with its own index: `diag_blocks` of the per-mode 2×2 blocks -/
noncomputable def userWaveguide2 (L wl n0 n1 : ℝ) : Matrix (Fin 4) (Fin 4) ℂ :=
  twoArms (cexp (2 * I * Real.pi * n0 / wl * L)) (cexp (2 * I * Real.pi * n1 / wl * L))

theorem userWaveguide2_modes (L wl n0 n1 : ℝ) :
    (∀ i j : Fin 2, userWaveguide2 L wl n0 n1 (Fin.castLE (by norm_num) i) (Fin.castLE (by norm_num) j) = waveguide L n0 wl i j) ∧
    (∀ i j : Fin 2, userWaveguide2 L wl n0 n1 (Fin.natAdd 2 i) (Fin.natAdd 2 j) = waveguide L n1 wl i j) ∧
    (∀ i j : Fin 2, userWaveguide2 L wl n0 n1 (Fin.castLE (by norm_num) i) (Fin.natAdd 2 j) = 0) ∧
    (∀ i j : Fin 2, userWaveguide2 L wl n0 n1 (Fin.natAdd 2 i) (Fin.castLE (by norm_num) j) = 0) := by
  refine ⟨?_, ?_, ?_, ?_⟩ <;> intro i j <;> fin_cases i <;> fin_cases j <;>
    simp [userWaveguide2, twoArms, waveguide, antidiag, Fin.natAdd, Fin.castLE]

theorem userWaveguide2_unitary (L wl n0 n1 : ℝ) : (userWaveguide2 L wl n0 n1)ᴴ * userWaveguide2 L wl n0 n1 = 1 := by
  apply twoArms_unitary
  · have : (2 * I * Real.pi * n0 / wl * L : ℂ) = ((2 * Real.pi * n0 / wl * L : ℝ) : ℂ) * I := by push_cast; ring
    rw [this]; exact conj_exp_mul _
  · have : (2 * I * Real.pi * n1 / wl * L : ℂ) = ((2 * Real.pi * n1 / wl * L : ℝ) : ℂ) * I := by push_cast; ring
    rw [this]; exact conj_exp_mul _

/-- BeamSplitter with an explicit power transmission `t`: through coefficient `sqrt t`, cross `i sqrt ratio` -/
noncomputable def beamSplitterT (ratio t phase : ℝ) : Matrix (Fin 4) (Fin 4) ℂ :=
  coupler (cexp (2 * I * Real.pi * phase) * ((Real.sqrt t : ℝ) : ℂ))
          (cexp (2 * I * Real.pi * phase) * (I * ((Real.sqrt ratio : ℝ) : ℂ)))

theorem beamSplitterT_power (ratio t phase : ℝ) (h0 : 0 ≤ ratio) (ht : 0 ≤ t) :
    Complex.normSq (beamSplitterT ratio t phase 0 2) = t ∧ Complex.normSq (beamSplitterT ratio t phase 0 3) = ratio ∧
    Complex.normSq (beamSplitterT ratio t phase 2 0) = t ∧ Complex.normSq (beamSplitterT ratio t phase 3 0) = ratio ∧
    beamSplitterT ratio t phase 0 0 = 0 ∧ beamSplitterT ratio t phase 0 1 = 0 := by
  have he : Complex.normSq (cexp (2 * I * Real.pi * phase)) = 1 := by
    have : (2 * I * Real.pi * phase : ℂ) = ((2 * Real.pi * phase : ℝ) : ℂ) * I := by push_cast; ring
    rw [this]; exact normSq_exp_mul _
  refine ⟨?_, ?_, ?_, ?_, rfl, rfl⟩ <;>
    simp [beamSplitterT, coupler, Complex.normSq_mul, he, Complex.normSq_ofReal, Real.mul_self_sqrt h0, Real.mul_self_sqrt ht]

theorem beamSplitterT_none (ratio phase : ℝ) : beamSplitterT ratio (1 - ratio) phase = beamSplitter ratio phase := rfl

/-- `Splitter1x2Gen(cross, phase)` as built by the source -/
noncomputable def splitter1x2Gen (cross phase : ℝ) : Matrix (Fin 3) (Fin 3) ℂ :=
  let t : ℂ := (Real.sqrt (1 / 2 - cross) : ℝ)
  let c : ℂ := (Real.sqrt cross : ℝ)
  !![0, t, t; t, 0, c * cexp (I * (Real.pi * phase)); t, c * cexp (-I * (Real.pi * phase)), 0]

end Blocks
