import LekkerVerif.Generated.Blocks
import LekkerVerif.Proofs.Blocks
import Mathlib.Tactic.Ring
import Mathlib.Tactic.NormNum
import Mathlib.Tactic.FinCases

/-! The matrices traced from the block classes of the current source (`Generated/Blocks.lean`, symbolic execution of
`__init__` + `create_S`) are the closed forms of `Proofs/Blocks.lean` the physics theorems are about.  The scripts are
tolerant: entries are compared after `simp` and ring normalisation inside the transcendental functions, so a
re-association, a hoisted sub-expression or an equivalent spelling in the source re-proves; a change of meaning does
not. -/

open Matrix Complex

namespace BlocksTie

/-- close `e = e'` for traced entries: casts pushed, ring normalisation also under `exp`, `cos`, `sqrt`, … -/
macro "entry_tie" : tactic =>
  `(tactic| first
    | rfl
    | (push_cast; ring_nf; done)
    | (push_cast; ring_nf; rfl)
    | (congr 1; push_cast; ring)
    | (norm_num; ring_nf; done)
    | (simp; ring_nf; done)
    | (simp; done))

set_option linter.unusedTactic false
set_option linter.unreachableTactic false
set_option linter.unusedSimpArgs false

theorem waveguide (L n wl : ℝ) : Generated.Blocks.waveguide L n wl = Blocks.waveguide L n wl := by
  ext i j
  fin_cases i <;> fin_cases j <;>
    simp [Generated.Blocks.waveguide, Blocks.waveguide, Blocks.antidiag] <;> entry_tie

theorem userWaveguide2 (L wl n0 n1 : ℝ) :
    Generated.Blocks.userWaveguide2 L wl n0 n1 = Blocks.userWaveguide2 L wl n0 n1 := by
  ext i j
  fin_cases i <;> fin_cases j <;>
    simp [Generated.Blocks.userWaveguide2, Blocks.userWaveguide2, Blocks.twoArms] <;> entry_tie

theorem beamSplitter (ratio phase : ℝ) :
    Generated.Blocks.beamSplitter ratio phase = Blocks.beamSplitter ratio phase := by
  ext i j
  fin_cases i <;> fin_cases j <;>
    simp [Generated.Blocks.beamSplitter, Blocks.beamSplitter, Blocks.coupler] <;> entry_tie

theorem beamSplitterT (ratio t phase : ℝ) :
    Generated.Blocks.beamSplitterT ratio t phase = Blocks.beamSplitterT ratio t phase := by
  ext i j
  fin_cases i <;> fin_cases j <;>
    simp [Generated.Blocks.beamSplitterT, Blocks.beamSplitterT, Blocks.coupler] <;> entry_tie

theorem splitter1x2 : Generated.Blocks.splitter1x2 = Blocks.splitter1x2 := by
  ext i j
  fin_cases i <;> fin_cases j <;>
    simp [Generated.Blocks.splitter1x2, Blocks.splitter1x2] <;> entry_tie

theorem phaseShifter (ps : ℝ) : Generated.Blocks.phaseShifter ps = Blocks.phaseShifter ps := by
  ext i j
  fin_cases i <;> fin_cases j <;>
    simp [Generated.Blocks.phaseShifter, Blocks.phaseShifter, Blocks.antidiag] <;> entry_tie

theorem pushPull (ps : ℝ) : Generated.Blocks.pushPull ps = Blocks.pushPull ps := by
  ext i j
  fin_cases i <;> fin_cases j <;>
    simp [Generated.Blocks.pushPull, Blocks.pushPull, Blocks.twoArms] <;> entry_tie

theorem polRotFixed (angle : ℝ) : Generated.Blocks.polRotFixed angle = Blocks.polRot angle := by
  ext i j
  fin_cases i <;> fin_cases j <;>
    simp [Generated.Blocks.polRotFixed, Blocks.polRot, Blocks.rot4] <;> entry_tie

theorem polRotVar (angle : ℝ) : Generated.Blocks.polRotVar angle = Blocks.polRot angle := by
  ext i j
  fin_cases i <;> fin_cases j <;>
    simp [Generated.Blocks.polRotVar, Blocks.polRot, Blocks.rot4] <;> entry_tie

theorem attenuator (loss : ℝ) : Generated.Blocks.attenuator loss = Blocks.attenuator loss := by
  ext i j
  fin_cases i <;> fin_cases j <;>
    simp [Generated.Blocks.attenuator, Blocks.attenuator, Blocks.antidiag] <;> entry_tie

theorem linearAttenuator (c : ℝ) : Generated.Blocks.linearAttenuator c = Blocks.linearAttenuator c := by
  ext i j
  fin_cases i <;> fin_cases j <;>
    simp [Generated.Blocks.linearAttenuator, Blocks.linearAttenuator, Blocks.antidiag] <;> entry_tie

theorem mirror (ref phase : ℝ) : Generated.Blocks.mirror ref phase = Blocks.mirror ref phase := by
  ext i j
  fin_cases i <;> fin_cases j <;>
    simp [Generated.Blocks.mirror, Blocks.mirror] <;> entry_tie

theorem perfectMirror (phase : ℝ) : Generated.Blocks.perfectMirror phase = Blocks.perfectMirror phase := by
  ext i j
  fin_cases i <;> fin_cases j <;>
    simp [Generated.Blocks.perfectMirror, Blocks.perfectMirror] <;> entry_tie

theorem thPhaseShifter (L n wl ps : ℝ) :
    Generated.Blocks.thPhaseShifter L n wl ps = Blocks.thPhaseShifter L n wl ps := by
  ext i j
  fin_cases i <;> fin_cases j <;>
    simp [Generated.Blocks.thPhaseShifter, Blocks.thPhaseShifter, Blocks.antidiag] <;> entry_tie

theorem splitter1x2Gen (cross phase : ℝ) :
    Generated.Blocks.splitter1x2Gen cross phase = Blocks.splitter1x2Gen cross phase := by
  ext i j
  fin_cases i <;> fin_cases j <;>
    simp [Generated.Blocks.splitter1x2Gen, Blocks.splitter1x2Gen] <;> entry_tie

end BlocksTie
