import LekkerVerif.Generated.Kernel
import LekkerVerif.Core.Kernel
import Mathlib.Tactic.NoncommRing

/-! The regenerated kernel (`Generated.add`, `Generated.intComplete`, produced from
`/repo/lekkersim/scattering.py` on every run) equals the hand-written canonical form the
theory is developed for.  The scripts are tolerant: re-association, renamed temporaries or an
equivalent spelling in the source re-prove; a change of meaning does not. -/

open Matrix

variable {F : Type*} [Field F]
variable {n k m : Type*} [Fintype n] [Fintype k] [Fintype m] [DecidableEq n] [DecidableEq k] [DecidableEq m]

set_option linter.unusedSimpArgs false

theorem Generated.add_eq (A : SM F n k) (B : SM F k m) : Generated.add A B = A.add B := by
  first
  | rfl
  | (simp only [Generated.add, SM.add]; congr 1 <;> (simp only [Matrix.mul_assoc]; done))
  | (simp only [Generated.add, SM.add, Matrix.mul_one, Matrix.one_mul, add_zero, zero_add];
     congr 1 <;> (simp only [Matrix.mul_assoc]; done))
  | (simp only [Generated.add, SM.add]; congr 1 <;> (noncomm_ring; done))
  | (simp only [Generated.add, SM.add, Matrix.mul_one, Matrix.one_mul, add_zero, zero_add]; congr 1 <;> (noncomm_ring; done))

/-- the canonical interface waves (the right-hand sides of `star_waves`) -/
noncomputable def SM.waves (A : SM F n k) (B : SM F k m) (u : n → F) (d : m → F) : (k → F) × (k → F) :=
  ((1 - A.S12 * B.S21)⁻¹ *ᵥ (A.S11 *ᵥ u + (A.S12 * B.S22) *ᵥ d),
   (1 - B.S21 * A.S12)⁻¹ *ᵥ (B.S22 *ᵥ d + (B.S21 * A.S11) *ᵥ u))

theorem Generated.intComplete_eq (A : SM F n k) (B : SM F k m) (u : n → F) (d : m → F) :
    Generated.intComplete A B u d = A.waves B u d := by
  first
  | rfl
  | (simp only [Generated.intComplete, SM.waves, Matrix.mulVec_mulVec]; done)
  | (simp only [Generated.intComplete, SM.waves, Matrix.mulVec_mulVec]; congr 2 <;> (abel; done))
  | (simp only [Generated.intComplete, SM.waves, Matrix.mulVec_add, Matrix.mulVec_mulVec]; congr 2 <;> (abel; done))
  | (simp only [Generated.intComplete, SM.waves, Matrix.mulVec_add, Matrix.mulVec_mulVec, Matrix.mul_one, Matrix.one_mul,
      Matrix.mulVec_zero, add_zero, zero_add]; congr 2 <;> (abel; done))
