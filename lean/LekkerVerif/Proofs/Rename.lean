import LekkerVerif.Model.Params

/-! Lemmas: the repaired renaming is the simultaneous substitution (any listing order). -/

namespace Dict
variable {V : Type}
theorem get?_none_of_no_key (l : List (String × V)) (k : String) (h : ∀ e ∈ l, e.1 ≠ k) :
    (Dict.mk l).get? k = none := by
  unfold get?
  have : l.find? (·.1 == k) = none := by
    rw [List.find?_eq_none]
    intro e he; simpa using h e he
  simp [this]

theorem get?_append (a b : List (String × V)) (k : String) :
    (Dict.mk (a ++ b)).get? k = ((Dict.mk a).get? k).or ((Dict.mk b).get? k) := by
  unfold get?
  simp only [List.find?_append]
  cases a.find? (·.1 == k) <;> simp

theorem get?_filter_keep (l : List (String × V)) (p : String × V → Bool) (k : String)
    (h : ∀ e ∈ l, e.1 = k → p e = true) : (Dict.mk (l.filter p)).get? k = (Dict.mk l).get? k := by
  unfold get?
  simp only
  congr 1
  induction l with
  | nil => rfl
  | cons a t ih =>
    have iht := ih (fun e he => h e (List.mem_cons_of_mem _ he))
    by_cases hk : a.1 = k
    · have hp := h a List.mem_cons_self hk
      simp [List.filter, hp, List.find?, hk]
    · have hk' : (a.1 == k) = false := by simpa using hk
      by_cases hp : p a = true
      · simp only [List.filter, hp, List.find?, hk']; exact iht
      · have hp' : p a = false := by simpa using hp
        simp only [List.filter, hp', List.find?, hk']; exact iht
end Dict

theorem adds_get? {V : Type} (m : Table) (d : Dict V) (hold : (m.map (·.2)).Nodup) (x : String) :
    (Dict.mk (m.filterMap fun no => (d.get? no.1).map fun v => (no.2, v))).get? x
      = match m.find? (·.2 == x) with
        | some no => d.get? no.1
        | none => none := by
  induction m with
  | nil => simp [Dict.get?]
  | cons a t ih =>
    have hold' : (a.2 :: t.map (·.2)).Nodup := hold
    obtain ⟨ha, ht⟩ := List.nodup_cons.1 hold'
    by_cases hx : a.2 = x
    · -- the head is the unique entry whose old name is x
      have hfind : (a :: t).find? (·.2 == x) = some a := by simp [List.find?, hx]
      rw [hfind]
      simp only [List.filterMap_cons]
      cases hd : d.get? a.1 with
      | none =>
        simp only [Option.map_none]
        apply Dict.get?_none_of_no_key
        intro e he
        obtain ⟨no, hno, hmap⟩ := List.mem_filterMap.1 he
        cases hg : d.get? no.1 with
        | none => simp [hg] at hmap
        | some v =>
          simp only [hg, Option.map_some, Option.some.injEq] at hmap
          subst hmap
          simp only
          intro e'
          exact ha (hx ▸ e' ▸ List.mem_map.2 ⟨no, hno, rfl⟩)
      | some v =>
        simp [Dict.get?, List.find?, hx]
    · have hx' : (a.2 == x) = false := by simpa using hx
      have hfind : (a :: t).find? (·.2 == x) = t.find? (·.2 == x) := by simp [List.find?, hx']
      rw [hfind, ← ih ht]
      simp only [List.filterMap_cons]
      cases hd : d.get? a.1 with
      | none => simp
      | some v =>
        simp only [Option.map_some]
        unfold Dict.get?
        simp [List.find?, hx']

/-- **the repaired renaming is the simultaneous substitution, whatever the listing order of the pairs** -/
theorem renameFixed_spec {V : Type} (m : Table) (d : Dict V) (hold : (m.map (·.2)).Nodup) (x : String) :
    (renameFixed m d).get? x = simul m d x := by
  unfold renameFixed simul
  rw [Dict.get?_append, adds_get? m d hold x]
  cases hf : m.find? (·.2 == x) with
  | some no =>
    -- x is an old name: the base part has no key x
    have hno := List.find?_some hf
    have hmem := List.mem_of_find?_eq_some hf
    have : (Dict.mk (d.kv.filter fun e => !(m.any fun no => no.1 == e.1 || no.2 == e.1))).get? x = none := by
      apply Dict.get?_none_of_no_key
      intro e he hex
      have := (List.mem_filter.1 he).2
      simp only [Bool.not_eq_true', List.any_eq_false, Bool.or_eq_true, beq_iff_eq, not_or] at this
      exact (this no hmem).2 (by rw [hex]; simpa using hno)
    simp [this]
  | none =>
    have hnone : ∀ no ∈ m, no.2 ≠ x := by
      intro no hno
      have := List.find?_eq_none.1 hf no hno
      simpa using this
    by_cases hnew : m.any (·.1 == x) = true
    · -- x is a new name: filtered out of the base part
      have : (Dict.mk (d.kv.filter fun e => !(m.any fun no => no.1 == e.1 || no.2 == e.1))).get? x = none := by
        apply Dict.get?_none_of_no_key
        intro e he hex
        have h2 := (List.mem_filter.1 he).2
        simp only [Bool.not_eq_true', List.any_eq_false, Bool.or_eq_true, beq_iff_eq, not_or] at h2
        obtain ⟨no, hno, hnx⟩ := List.any_eq_true.1 hnew
        exact (h2 no hno).1 (by rw [hex]; simpa using hnx)
      simp [this, hnew]
    · have hnew' : m.any (·.1 == x) = false := by
        cases hb : m.any (·.1 == x) with
        | true => exact absurd hb hnew
        | false => rfl
      simp only [hnew', Bool.false_eq_true, if_false, Option.or_none]
      apply Dict.get?_filter_keep
      intro e _ hex
      simp only [Bool.not_eq_true', List.any_eq_false, Bool.or_eq_true, beq_iff_eq, not_or]
      intro no hno
      refine ⟨?_, ?_⟩
      · intro h1
        have := List.any_eq_false.1 hnew' no hno
        simp only [beq_iff_eq] at this
        exact this (h1.trans hex)
      · intro h2; exact hnone no hno (h2.trans hex)

theorem find?_old_iff (m : Table) (hold : (m.map (·.2)).Nodup) (x : String) (no : String × String) :
    m.find? (·.2 == x) = some no ↔ no ∈ m ∧ no.2 = x := by
  constructor
  · intro h
    exact ⟨List.mem_of_find?_eq_some h, by simpa using List.find?_some h⟩
  · rintro ⟨hmem, hx⟩
    induction m with
    | nil => simp at hmem
    | cons a t ih =>
      have hold' : (a.2 :: t.map (·.2)).Nodup := hold
      obtain ⟨ha, ht⟩ := List.nodup_cons.1 hold'
      rcases List.mem_cons.1 hmem with rfl | hmem
      · simp [List.find?, hx]
      · have hne : a.2 ≠ x := by
          intro e
          exact ha (e ▸ hx ▸ List.mem_map.2 ⟨no, hmem, rfl⟩)
        have : (a.2 == x) = false := by simpa using hne
        simp only [List.find?, this]
        exact ih ht hmem

theorem simul_perm {V : Type} (m m' : Table) (d : Dict V) (hp : m.Perm m') (hold : (m.map (·.2)).Nodup) (x : String) :
    simul m d x = simul m' d x := by
  have hold' : (m'.map (·.2)).Nodup := (hp.map _).nodup_iff.1 hold
  have hany : m.any (·.1 == x) = m'.any (·.1 == x) := by
    rw [Bool.eq_iff_iff]
    simp only [List.any_eq_true]
    exact ⟨fun ⟨e, he, h⟩ => ⟨e, hp.subset he, h⟩, fun ⟨e, he, h⟩ => ⟨e, hp.symm.subset he, h⟩⟩
  unfold simul
  cases hf : m.find? (·.2 == x) with
  | some no =>
    have := (find?_old_iff m hold x no).1 hf
    have hf' : m'.find? (·.2 == x) = some no := (find?_old_iff m' hold' x no).2 ⟨hp.subset this.1, this.2⟩
    rw [hf']
  | none =>
    have hf' : m'.find? (·.2 == x) = none := by
      rw [List.find?_eq_none]
      intro e he
      exact List.find?_eq_none.1 hf e (hp.symm.subset he)
    rw [hf', hany]

/-- listing order does not matter -/
theorem renameFixed_perm {V : Type} (m m' : Table) (d : Dict V) (hp : m.Perm m') (hold : (m.map (·.2)).Nodup)
    (x : String) : (renameFixed m d).get? x = (renameFixed m' d).get? x := by
  rw [renameFixed_spec m d hold, renameFixed_spec m' d ((hp.map _).nodup_iff.1 hold), simul_perm m m' d hp hold]

