import LekkerVerif.Model.Wiring

/-! Invariant of the wiring state machine and its preservation by `add_structure` and `connect`;
atomicity and idempotence of `connect`. -/

namespace Wiring

structure WInv (w : W) : Prop where
  keysConnected : ∀ i o, getObj w i = some o → ∀ e ∈ o.conn, (i, e.1) ∈ w.clist
  pinsNodup : ∀ i o, getObj w i = some o → o.pins.Nodup
  freeObj : ∀ x ∈ w.free, x.1 ∈ w.structs ∧ ∃ o, getObj w x.1 = some o ∧ x.2 ∈ o.pins
  clistStructs : ∀ x ∈ w.clist, x.1 ∈ w.structs
  clistNodup : w.clist.Nodup
  freeNodup : w.free.Nodup
  freeDisj : ∀ x ∈ w.free, x ∉ w.clist
  clistConns : w.clist = w.conns.flatMap (fun c => [c.1, c.2])

theorem find_map_same (l : List (Nat × SObj)) (i : Nat) (o o' : SObj)
    (h : (l.find? (·.1 == i)).map (·.2) = some o) :
    ((l.map fun e => if e.1 == i then (i, o') else e).find? (·.1 == i)).map (·.2) = some o' := by
  induction l with
  | nil => simp at h
  | cons a t ih =>
    by_cases ha : a.1 = i
    · simp [List.find?_cons, ha]
    · have hb : (a.1 == i) = false := by simpa using ha
      rw [List.find?_cons, hb] at h
      rw [List.map_cons, hb]
      simp only [Bool.false_eq_true, ↓reduceIte]
      rw [List.find?_cons, hb]
      exact ih h

theorem find_map_other (l : List (Nat × SObj)) (i j : Nat) (o' : SObj) (hji : j ≠ i) :
    ((l.map fun e => if e.1 == i then (i, o') else e).find? (·.1 == j)).map (·.2)
      = (l.find? (·.1 == j)).map (·.2) := by
  induction l with
  | nil => rfl
  | cons a t ih =>
    by_cases ha : a.1 = i
    · have hj : (i == j) = false := by simpa using fun e => hji e.symm
      have hj' : (a.1 == j) = false := by simpa [ha] using fun e => hji e.symm
      rw [List.map_cons, List.find?_cons, List.find?_cons, hj']
      simp only [ha, beq_self_eq_true, ↓reduceIte, hj]
      exact ih
    · have hb : (a.1 == i) = false := by simpa using ha
      rw [List.map_cons, hb]
      simp only [Bool.false_eq_true, ↓reduceIte]
      rw [List.find?_cons, List.find?_cons]
      cases (a.1 == j)
      · exact ih
      · rfl

theorem getObj_setObj_same (w : W) (i : Nat) (o o' : SObj) (h : getObj w i = some o) :
    getObj (setObj w i o') i = some o' := find_map_same w.heap i o o' h

theorem getObj_setObj_other (w : W) (i j : Nat) (o' : SObj) (h : j ≠ i) :
    getObj (setObj w i o') j = getObj w j := find_map_other w.heap i j o' h

theorem getObj_setObj_isSome (w : W) (i j : Nat) (o' : SObj) (hi : (getObj w i).isSome) :
    (getObj (setObj w i o') j).isSome = (getObj w j).isSome := by
  by_cases h : j = i
  · subst h
    obtain ⟨o, ho⟩ := Option.isSome_iff_exists.1 hi
    rw [getObj_setObj_same w j o o' ho, ho]; rfl
  · rw [getObj_setObj_other w i j o' h]

/-- `add_conn` cannot raise on a pin that has no entry yet -/
theorem addConn_of_no_key (o : SObj) (pin : Nat) (target : Pin) (h : ∀ e ∈ o.conn, e.1 ≠ pin) :
    ∃ ct, addConn o pin target = some { o with conn := o.conn ++ [(pin, target)], connTo := ct } := by
  unfold addConn
  have : o.conn.find? (·.1 == pin) = none := by
    rw [List.find?_eq_none]; intro e he; simpa using h e he
  simp [this]

/-- **atomicity of connect**: in a consistent state a rejected `connect` leaves everything unchanged -/
theorem connect_atomic (w : W) (inv : WInv w) (p q : Pin) (h : (connect w p q).2 ≠ .ok) : (connect w p q).1 = w := by
  unfold connect at h ⊢
  split
  · rfl
  · split
    · split
      · rfl
      · split <;> rfl
    · split
      · rfl
      · split
        · rfl
        · rename_i hpq hp hq hfree
          -- both pins are free: the tables are written, and neither add_conn can raise
          exfalso
          have hp' : p ∉ w.clist := by simpa using hp
          have hq' : q ∉ w.clist := by simpa using hq
          have hfp : p ∈ w.free ∧ q ∈ w.free := by
            simp only [Bool.or_eq_true, Bool.not_eq_true', not_or, Bool.not_eq_false] at hfree
            exact ⟨by simpa using hfree.1, by simpa using hfree.2⟩
          obtain ⟨_, op, hop, _⟩ := inv.freeObj p hfp.1
          obtain ⟨_, oq, hoq, _⟩ := inv.freeObj q hfp.2
          have hne : q.1 ≠ p.1 := by
            intro e; apply hpq; simp [e]
          have kp : ∀ e ∈ op.conn, e.1 ≠ p.2 := fun e he hk => hp' (by
            have := inv.keysConnected p.1 op hop e he; rwa [hk] at this)
          have kq : ∀ e ∈ oq.conn, e.1 ≠ q.2 := fun e he hk => hq' (by
            have := inv.keysConnected q.1 oq hoq e he; rwa [hk] at this)
          obtain ⟨ct1, h1⟩ := addConn_of_no_key op p.2 q kp
          obtain ⟨ct2, h2⟩ := addConn_of_no_key oq q.2 p kq
          have g1 : getObj { w with clist := w.clist ++ [p, q], conns := w.conns ++ [(p, q)], free := (w.free.erase p).erase q } p.1 = some op := hop
          rw [if_neg hpq, if_neg hp, if_neg hq, if_neg hfree] at h
          simp only [g1, h1] at h
          have g2 : getObj (setObj { w with clist := w.clist ++ [p, q], conns := w.conns ++ [(p, q)], free := (w.free.erase p).erase q } p.1
              { op with conn := op.conn ++ [(p.2, q)], connTo := ct1 }) q.1 = some oq := by
            rw [getObj_setObj_other _ _ _ _ hne]; exact hoq
          simp only [g2, h2] at h
          exact h rfl

/-- **idempotence**: repeating an identical connect call, in either orientation, changes nothing and succeeds -/
theorem connect_idempotent (w : W) (inv : WInv w) (p q : Pin) (hpq : p.1 ≠ q.1) (h : (p, q) ∈ w.conns)
    (hl : lookup w.conns p = some q) : connect w p q = (w, .ok) ∧ connect w q p = (w, .ok) := by
  have hp : p ∈ w.clist := by
    rw [inv.clistConns]; exact List.mem_flatMap.2 ⟨(p, q), h, by simp⟩
  have hq : q ∈ w.clist := by
    rw [inv.clistConns]; exact List.mem_flatMap.2 ⟨(p, q), h, by simp⟩
  have b1 : (p.1 == q.1) = false := by simpa using hpq
  have b2 : (q.1 == p.1) = false := by simpa using fun e => hpq e.symm
  constructor
  · unfold connect
    simp [b1, hp, hl]
  · unfold connect
    simp only [b2, Bool.false_eq_true, ↓reduceIte, List.contains_eq_mem, hq, decide_true, hl, beq_self_eq_true]
    split <;> rfl

end Wiring

namespace Wiring

def w1 (w : W) (p q : Pin) : W :=
  { w with clist := w.clist ++ [p, q], conns := w.conns ++ [(p, q)], free := (w.free.erase p).erase q }
def addC (o : SObj) (pin : Nat) (t : Pin) (ct : List Nat) : SObj := { o with conn := o.conn ++ [(pin, t)], connTo := ct }
def connectResult (w : W) (p q : Pin) (op oq : SObj) (ct1 ct2 : List Nat) : W :=
  setObj (setObj (w1 w p q) p.1 (addC op p.2 q ct1)) q.1 (addC oq q.2 p ct2)

/-- what a successful, state-changing `connect` did -/
theorem connect_cases (w : W) (inv : WInv w) (p q : Pin) :
    (connect w p q).1 = w ∨
    ∃ op oq ct1 ct2, p.1 ≠ q.1 ∧ p ∉ w.clist ∧ q ∉ w.clist ∧ p ∈ w.free ∧ q ∈ w.free ∧
      getObj w p.1 = some op ∧ getObj w q.1 = some oq ∧
      (connect w p q) = (connectResult w p q op oq ct1 ct2, .ok) := by
  by_cases hpq : (p.1 == q.1) = true
  · left; unfold connect; rw [if_pos hpq]
  by_cases hp : w.clist.contains p = true
  · left; unfold connect; rw [if_neg hpq, if_pos hp]; split; rfl; split <;> rfl
  by_cases hq : w.clist.contains q = true
  · left; unfold connect; rw [if_neg hpq, if_neg hp, if_pos hq]
  by_cases hfree : (!(w.free.contains p) || !(w.free.contains q)) = true
  · left; unfold connect; rw [if_neg hpq, if_neg hp, if_neg hq, if_pos hfree]
  right
  have hp' : p ∉ w.clist := by simpa using hp
  have hq' : q ∉ w.clist := by simpa using hq
  have hfp : p ∈ w.free ∧ q ∈ w.free := by
    simp only [Bool.or_eq_true, Bool.not_eq_true', not_or, Bool.not_eq_false] at hfree
    exact ⟨by simpa using hfree.1, by simpa using hfree.2⟩
  obtain ⟨_, op, hop, _⟩ := inv.freeObj p hfp.1
  obtain ⟨_, oq, hoq, _⟩ := inv.freeObj q hfp.2
  have hne : q.1 ≠ p.1 := by intro e; apply hpq; simp [e]
  have kp : ∀ e ∈ op.conn, e.1 ≠ p.2 := fun e he hk => hp' (by
    have := inv.keysConnected p.1 op hop e he; rwa [hk] at this)
  have kq : ∀ e ∈ oq.conn, e.1 ≠ q.2 := fun e he hk => hq' (by
    have := inv.keysConnected q.1 oq hoq e he; rwa [hk] at this)
  obtain ⟨ct1, h1⟩ := addConn_of_no_key op p.2 q kp
  obtain ⟨ct2, h2⟩ := addConn_of_no_key oq q.2 p kq
  refine ⟨op, oq, ct1, ct2, fun e => hne e.symm, hp', hq', hfp.1, hfp.2, hop, hoq, ?_⟩
  unfold connect
  rw [if_neg hpq, if_neg hp, if_neg hq, if_neg hfree]
  have g1 : getObj { w with clist := w.clist ++ [p, q], conns := w.conns ++ [(p, q)], free := (w.free.erase p).erase q } p.1 = some op := hop
  simp only [g1, h1]
  have g2 : getObj (setObj { w with clist := w.clist ++ [p, q], conns := w.conns ++ [(p, q)], free := (w.free.erase p).erase q } p.1
      { op with conn := op.conn ++ [(p.2, q)], connTo := ct1 }) q.1 = some oq := by
    rw [getObj_setObj_other _ _ _ _ hne]; exact hoq
  simp only [g2, h2]
  rfl

theorem connect_inv (w : W) (inv : WInv w) (p q : Pin) : WInv (connect w p q).1 := by
  rcases connect_cases w inv p q with h | ⟨op, oq, ct1, ct2, hne, hp, hq, hfp, hfq, hop, hoq, h⟩
  · rw [h]; exact inv
  rw [h]
  show WInv (setObj (setObj (w1 w p q) p.1 (addC op p.2 q ct1)) q.1 (addC oq q.2 p ct2))
  generalize hop' : addC op p.2 q ct1 = op'
  generalize hoq' : addC oq q.2 p ct2 = oq'
  have eop : op'.conn = op.conn ++ [(p.2, q)] ∧ op'.pins = op.pins := by subst hop'; exact ⟨rfl, rfl⟩
  have eoq : oq'.conn = oq.conn ++ [(q.2, p)] ∧ oq'.pins = oq.pins := by subst hoq'; exact ⟨rfl, rfl⟩
  have hqp : q.1 ≠ p.1 := fun e => hne e.symm
  have gq : getObj (setObj (setObj (w1 w p q) p.1 op') q.1 oq') q.1 = some oq' :=
    getObj_setObj_same _ _ oq _ (by rw [getObj_setObj_other _ _ _ _ hqp]; exact hoq)
  have gp : getObj (setObj (setObj (w1 w p q) p.1 op') q.1 oq') p.1 = some op' := by
    rw [getObj_setObj_other _ _ _ _ hne]; exact getObj_setObj_same _ _ op _ hop
  have go : ∀ i, i ≠ p.1 → i ≠ q.1 → getObj (setObj (setObj (w1 w p q) p.1 op') q.1 oq') i = getObj w i := by
    intro i h1 h2
    rw [getObj_setObj_other _ _ _ _ h2, getObj_setObj_other _ _ _ _ h1]; rfl
  have hclist : (setObj (setObj (w1 w p q) p.1 op') q.1 oq').clist = w.clist ++ [p, q] := rfl
  have hfree : (setObj (setObj (w1 w p q) p.1 op') q.1 oq').free = (w.free.erase p).erase q := rfl
  have hstructs : (setObj (setObj (w1 w p q) p.1 op') q.1 oq').structs = w.structs := rfl
  have hconns : (setObj (setObj (w1 w p q) p.1 op') q.1 oq').conns = w.conns ++ [(p, q)] := rfl
  have memfree : ∀ x, x ∈ (w.free.erase p).erase q → x ∈ w.free ∧ x ≠ p ∧ x ≠ q := by
    intro x hx
    have hnd := inv.freeNodup
    have h1 := (List.Nodup.mem_erase_iff (hnd.erase p)).1 hx
    have h2 := (List.Nodup.mem_erase_iff hnd).1 h1.2
    exact ⟨h2.2, h2.1, h1.1⟩
  refine ⟨?_, ?_, ?_, ?_, ?_, ?_, ?_, ?_⟩
  · intro i o hio e he
    rw [hclist]
    by_cases hiq : i = q.1
    · subst hiq
      rw [gq] at hio
      have : o = oq' := (Option.some.inj hio).symm
      subst this
      rw [eoq.1] at he
      rcases List.mem_append.1 he with he | he
      · exact List.mem_append_left _ (inv.keysConnected q.1 oq hoq e he)
      · have : e = (q.2, p) := by simpa using he
        subst this
        exact List.mem_append_right _ (by simp)
    · by_cases hip : i = p.1
      · subst hip
        rw [gp] at hio
        have : o = op' := (Option.some.inj hio).symm
        subst this
        rw [eop.1] at he
        rcases List.mem_append.1 he with he | he
        · exact List.mem_append_left _ (inv.keysConnected p.1 op hop e he)
        · have : e = (p.2, q) := by simpa using he
          subst this
          exact List.mem_append_right _ (by simp)
      · rw [go i hip hiq] at hio
        exact List.mem_append_left _ (inv.keysConnected i o hio e he)
  · intro i o hio
    by_cases hiq : i = q.1
    · subst hiq
      rw [gq] at hio
      have : o = oq' := (Option.some.inj hio).symm
      subst this
      rw [eoq.2]; exact inv.pinsNodup q.1 oq hoq
    · by_cases hip : i = p.1
      · subst hip
        rw [gp] at hio
        have : o = op' := (Option.some.inj hio).symm
        subst this
        rw [eop.2]; exact inv.pinsNodup p.1 op hop
      · rw [go i hip hiq] at hio
        exact inv.pinsNodup i o hio
  · intro x hx
    rw [hfree] at hx
    obtain ⟨hxf, _, _⟩ := memfree x hx
    obtain ⟨hs, o, ho, hpin⟩ := inv.freeObj x hxf
    refine ⟨hs, ?_⟩
    by_cases hiq : x.1 = q.1
    · refine ⟨oq', by rw [hiq]; exact gq, ?_⟩
      rw [hiq, hoq] at ho
      have : o = oq := (Option.some.inj ho).symm
      subst this; rw [eoq.2]; exact hpin
    · by_cases hip : x.1 = p.1
      · refine ⟨op', by rw [hip]; exact gp, ?_⟩
        rw [hip, hop] at ho
        have : o = op := (Option.some.inj ho).symm
        subst this; rw [eop.2]; exact hpin
      · exact ⟨o, by rw [go x.1 hip hiq]; exact ho, hpin⟩
  · intro x hx
    rw [hclist] at hx
    rw [hstructs]
    rcases List.mem_append.1 hx with hx | hx
    · exact inv.clistStructs x hx
    · rcases List.mem_cons.1 hx with rfl | hx
      · exact (inv.freeObj _ hfp).1
      · have : x = q := by simpa using hx
        subst this; exact (inv.freeObj _ hfq).1
  · rw [hclist]
    refine List.nodup_append.2 ⟨inv.clistNodup, ?_, ?_⟩
    · refine List.nodup_cons.2 ⟨?_, by simp⟩
      intro h; have : p = q := by simpa using h
      exact hne (by rw [this])
    · intro a ha b hb
      rcases List.mem_cons.1 hb with rfl | hb
      · intro e; exact hp (e ▸ ha)
      · have : b = q := by simpa using hb
        subst this; intro e; exact hq (e ▸ ha)
  · rw [hfree]; exact (inv.freeNodup.erase p).erase q
  · intro x hx
    rw [hfree] at hx
    rw [hclist]
    obtain ⟨hxf, hxp, hxq⟩ := memfree x hx
    intro hmem
    rcases List.mem_append.1 hmem with hmem | hmem
    · exact inv.freeDisj x hxf hmem
    · rcases List.mem_cons.1 hmem with rfl | hmem
      · exact hxp rfl
      · have : x = q := by simpa using hmem
        exact hxq this
  · rw [hclist, hconns, inv.clistConns]
    simp [List.flatMap_append]

theorem addStruct_inv (w : W) (inv : WInv w) (i : Nat) : WInv (addStruct w i).1 := by
  unfold addStruct
  split
  · exact inv
  · rename_i hnot
    split
    · exact inv
    · rename_i o ho
      have hi : i ∉ w.structs := by simpa using hnot
      have hget : ∀ j, getObj { w with structs := w.structs ++ [i], free := w.free ++ o.pins.map fun p => (i, p) } j = getObj w j :=
        fun _ => rfl
      refine ⟨?_, ?_, ?_, ?_, inv.clistNodup, ?_, ?_, inv.clistConns⟩
      · intro j oj hj e he; exact inv.keysConnected j oj hj e he
      · intro j oj hj; exact inv.pinsNodup j oj hj
      · intro x hx
        simp only at hx
        rcases List.mem_append.1 hx with hx | hx
        · obtain ⟨hs, o', ho', hp⟩ := inv.freeObj x hx
          exact ⟨List.mem_append_left _ hs, o', ho', hp⟩
        · obtain ⟨pn, hpn, rfl⟩ := List.mem_map.1 hx
          exact ⟨List.mem_append_right _ (by simp), o, ho, hpn⟩
      · intro x hx; exact List.mem_append_left _ (inv.clistStructs x hx)
      · simp only
        refine List.nodup_append.2 ⟨inv.freeNodup, ?_, ?_⟩
        · have := inv.pinsNodup i o ho
          rw [List.nodup_iff_pairwise_ne] at this ⊢
          exact List.Pairwise.map _ (fun a b h he => h (by simpa using he)) this
        · intro a ha b hb hab
          obtain ⟨pn, _, rfl⟩ := List.mem_map.1 hb
          subst hab
          exact hi (inv.freeObj _ ha).1
      · intro x hx
        simp only at hx ⊢
        rcases List.mem_append.1 hx with hx | hx
        · exact inv.freeDisj x hx
        · obtain ⟨pn, _, rfl⟩ := List.mem_map.1 hx
          intro hc; exact hi (inv.clistStructs _ hc)

theorem init_inv (pinCounts : List Nat) : WInv (init pinCounts) := by
  refine ⟨?_, ?_, ?_, ?_, ?_, ?_, ?_, ?_⟩
  · intro i o hio e he
    unfold getObj init at hio
    simp only at hio
    cases hf : (List.map (fun nk : Nat × Nat => (nk.2, ({ pins := List.range nk.1, conn := [], connTo := [] } : SObj))) pinCounts.zipIdx).find? (·.1 == i) with
    | none => simp [hf] at hio
    | some x =>
      rw [hf] at hio
      have hm := List.mem_of_find?_eq_some hf
      obtain ⟨nk, _, rfl⟩ := List.mem_map.1 hm
      simp only [Option.map_some, Option.some.injEq] at hio
      subst hio
      simp at he
  · intro i o hio
    unfold getObj init at hio
    simp only at hio
    cases hf : (List.map (fun nk : Nat × Nat => (nk.2, ({ pins := List.range nk.1, conn := [], connTo := [] } : SObj))) pinCounts.zipIdx).find? (·.1 == i) with
    | none => simp [hf] at hio
    | some x =>
      rw [hf] at hio
      have hm := List.mem_of_find?_eq_some hf
      obtain ⟨nk, _, rfl⟩ := List.mem_map.1 hm
      simp only [Option.map_some, Option.some.injEq] at hio
      subst hio
      exact List.nodup_range
  all_goals simp [init]

end Wiring
