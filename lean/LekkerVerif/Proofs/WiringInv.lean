import LekkerVerif.Model.Wiring

/-! Invariant of the wiring state machine and its preservation by every wiring call
(`add_structure`, `connect`, `cut_structure`, `remove_structure`, `map_pins`);
atomicity and idempotence of `connect`. -/

namespace Wiring

def ends (c : Pin × Pin) : List Pin := [c.1, c.2]

/-- consistency of the three redundant solver views and of the per-structure tables -/
structure WInv (w : W) : Prop where
  pinsNodup : ∀ i o, getObj w i = some o → o.pins.Nodup
  connToNodup : ∀ i o, getObj w i = some o → o.connTo.Nodup
  structsNodup : w.structs.Nodup
  freeObj : ∀ x ∈ w.free, x.1 ∈ w.structs ∧ ∃ o, getObj w x.1 = some o ∧ x.2 ∈ o.pins
  clistObj : ∀ x ∈ w.clist, x.1 ∈ w.structs ∧ ∃ o, getObj w x.1 = some o ∧ x.2 ∈ o.pins
  clistNodup : w.clist.Nodup
  freeNodup : w.free.Nodup
  freeDisj : ∀ x ∈ w.free, x ∉ w.clist
  clistConns : w.clist = w.conns.flatMap (fun c => [c.1, c.2])
  /-- every pin of a present structure is either free or connected -/
  freeComplete : ∀ i ∈ w.structs, ∀ o, getObj w i = some o → ∀ p ∈ o.pins, (i, p) ∈ w.free ∨ (i, p) ∈ w.clist
  /-- every entry of a structure's own table is a connection of the solver -/
  entryConn : ∀ i o, getObj w i = some o → ∀ e ∈ o.conn, ((i, e.1), e.2) ∈ w.conns ∨ (e.2, (i, e.1)) ∈ w.conns
  entryTo : ∀ i o, getObj w i = some o → ∀ e ∈ o.conn, e.2.1 ∈ o.connTo
  /-- every connection of the solver is recorded in the tables of both structures -/
  connsEntry : ∀ c ∈ w.conns, (∃ o, getObj w c.1.1 = some o ∧ (c.1.2, c.2) ∈ o.conn) ∧
                              (∃ o, getObj w c.2.1 = some o ∧ (c.2.2, c.1) ∈ o.conn)

theorem mem_clist_iff {w : W} (inv : WInv w) (x : Pin) : x ∈ w.clist ↔ ∃ c ∈ w.conns, x = c.1 ∨ x = c.2 := by
  rw [inv.clistConns, List.mem_flatMap]
  constructor
  · rintro ⟨c, hc, hx⟩; exact ⟨c, hc, by simpa using hx⟩
  · rintro ⟨c, hc, hx⟩; exact ⟨c, hc, by simpa using hx⟩

theorem WInv.clistStructs {w : W} (inv : WInv w) : ∀ x ∈ w.clist, x.1 ∈ w.structs := fun x hx => (inv.clistObj x hx).1

theorem WInv.keysConnected {w : W} (inv : WInv w) : ∀ i o, getObj w i = some o → ∀ e ∈ o.conn, (i, e.1) ∈ w.clist := by
  intro i o ho e he
  rw [mem_clist_iff inv]
  rcases inv.entryConn i o ho e he with h | h
  · exact ⟨_, h, Or.inl rfl⟩
  · exact ⟨_, h, Or.inr rfl⟩

/-- the neighbour named in a table entry lists this structure in its `connected_to` -/
theorem WInv.recip {w : W} (inv : WInv w) : ∀ i o, getObj w i = some o → ∀ e ∈ o.conn,
    ∃ ot, getObj w e.2.1 = some ot ∧ i ∈ ot.connTo := by
  intro i o ho e he
  rcases inv.entryConn i o ho e he with h | h
  · obtain ⟨ot, hot, hmem⟩ := (inv.connsEntry _ h).2
    exact ⟨ot, hot, inv.entryTo _ ot hot _ hmem⟩
  · obtain ⟨ot, hot, hmem⟩ := (inv.connsEntry _ h).1
    exact ⟨ot, hot, inv.entryTo _ ot hot _ hmem⟩

theorem find_map_same (l : List (Nat × SObj)) (i : Nat) (o o' : SObj)
    (h : (l.find? (·.1 == i)).map (·.2) = some o) :
    ((l.map fun e => if e.1 == i then (i, o') else e).find? (·.1 == i)).map (·.2) = some o' := by
  induction l with
  | nil => simp at h
  | cons a t ih =>
    by_cases ha : a.1 = i
    · simp [List.find?_cons, ha]
    · have hb : (a.1 == i) = false := by simpa using ha
      rw [List.find?_cons, hb] at h
      rw [List.map_cons, hb]
      simp only [Bool.false_eq_true, ↓reduceIte]
      rw [List.find?_cons, hb]
      exact ih h

theorem find_map_other (l : List (Nat × SObj)) (i j : Nat) (o' : SObj) (hji : j ≠ i) :
    ((l.map fun e => if e.1 == i then (i, o') else e).find? (·.1 == j)).map (·.2)
      = (l.find? (·.1 == j)).map (·.2) := by
  induction l with
  | nil => rfl
  | cons a t ih =>
    by_cases ha : a.1 = i
    · have hj : (i == j) = false := by simpa using fun e => hji e.symm
      have hj' : (a.1 == j) = false := by simpa [ha] using fun e => hji e.symm
      rw [List.map_cons, List.find?_cons, List.find?_cons, hj']
      simp only [ha, beq_self_eq_true, ↓reduceIte, hj]
      exact ih
    · have hb : (a.1 == i) = false := by simpa using ha
      rw [List.map_cons, hb]
      simp only [Bool.false_eq_true, ↓reduceIte]
      rw [List.find?_cons, List.find?_cons]
      cases (a.1 == j)
      · exact ih
      · rfl

theorem getObj_setObj_same (w : W) (i : Nat) (o o' : SObj) (h : getObj w i = some o) :
    getObj (setObj w i o') i = some o' := find_map_same w.heap i o o' h

theorem getObj_setObj_other (w : W) (i j : Nat) (o' : SObj) (h : j ≠ i) :
    getObj (setObj w i o') j = getObj w j := find_map_other w.heap i j o' h

theorem getObj_setObj_isSome (w : W) (i j : Nat) (o' : SObj) (hi : (getObj w i).isSome) :
    (getObj (setObj w i o') j).isSome = (getObj w j).isSome := by
  by_cases h : j = i
  · subst h
    obtain ⟨o, ho⟩ := Option.isSome_iff_exists.1 hi
    rw [getObj_setObj_same w j o o' ho, ho]; rfl
  · rw [getObj_setObj_other w i j o' h]



def ctOf (o : SObj) (t : Nat) : List Nat := if o.connTo.contains t then o.connTo else o.connTo ++ [t]

theorem mem_ctOf_self (o : SObj) (t : Nat) : t ∈ ctOf o t := by
  unfold ctOf; split
  · rename_i h; simpa using h
  · simp

theorem mem_ctOf_of_mem (o : SObj) (t x : Nat) (h : x ∈ o.connTo) : x ∈ ctOf o t := by
  unfold ctOf; split
  · exact h
  · exact List.mem_append_left _ h

theorem ctOf_nodup (o : SObj) (t : Nat) (h : o.connTo.Nodup) : (ctOf o t).Nodup := by
  unfold ctOf; split
  · exact h
  · rename_i hc
    have hc' : t ∉ o.connTo := by simpa using hc
    refine List.nodup_append.2 ⟨h, by simp, ?_⟩
    intro a ha b hb
    have : b = t := by simpa using hb
    subst this; intro e; exact hc' (e ▸ ha)

/-- `add_conn` cannot raise on a pin that has no entry yet -/
theorem addConn_of_no_key (o : SObj) (pin : Nat) (target : Pin) (h : ∀ e ∈ o.conn, e.1 ≠ pin) :
    addConn o pin target = some { o with conn := o.conn ++ [(pin, target)], connTo := ctOf o target.1 } := by
  unfold addConn
  have : o.conn.find? (·.1 == pin) = none := by
    rw [List.find?_eq_none]; intro e he; simpa using h e he
  simp [this, ctOf]

def w1 (w : W) (p q : Pin) : W :=
  { w with clist := w.clist ++ [p, q], conns := w.conns ++ [(p, q)], free := (w.free.erase p).erase q }
def addC (o : SObj) (pin : Nat) (t : Pin) : SObj := { o with conn := o.conn ++ [(pin, t)], connTo := ctOf o t.1 }
def connectResult (w : W) (p q : Pin) (op oq : SObj) : W :=
  setObj (setObj (w1 w p q) p.1 (addC op p.2 q)) q.1 (addC oq q.2 p)

/-- what `connect` does in a consistent state: nothing, or the complete update of every table -/
theorem connect_cases (w : W) (inv : WInv w) (p q : Pin) :
    ((connect w p q).1 = w ∧ ((connect w p q).2 = .ok ∨ (connect w p q).2 = .valueError)) ∨
    ∃ op oq, p.1 ≠ q.1 ∧ p ∉ w.clist ∧ q ∉ w.clist ∧ p ∈ w.free ∧ q ∈ w.free ∧
      getObj w p.1 = some op ∧ getObj w q.1 = some oq ∧
      (connect w p q) = (connectResult w p q op oq, .ok) := by
  by_cases hpq : (p.1 == q.1) = true
  · left; unfold connect; rw [if_pos hpq]; exact ⟨rfl, Or.inr rfl⟩
  by_cases hp : w.clist.contains p = true
  · left; unfold connect; rw [if_neg hpq, if_pos hp]; split; exact ⟨rfl, Or.inl rfl⟩
    split; exact ⟨rfl, Or.inl rfl⟩; exact ⟨rfl, Or.inr rfl⟩
  by_cases hq : w.clist.contains q = true
  · left; unfold connect; rw [if_neg hpq, if_neg hp, if_pos hq]; exact ⟨rfl, Or.inr rfl⟩
  by_cases hfree : (!(w.free.contains p) || !(w.free.contains q)) = true
  · left; unfold connect; rw [if_neg hpq, if_neg hp, if_neg hq, if_pos hfree]; exact ⟨rfl, Or.inr rfl⟩
  right
  have hp' : p ∉ w.clist := by simpa using hp
  have hq' : q ∉ w.clist := by simpa using hq
  have hfp : p ∈ w.free ∧ q ∈ w.free := by
    simp only [Bool.or_eq_true, Bool.not_eq_true', not_or, Bool.not_eq_false] at hfree
    exact ⟨by simpa using hfree.1, by simpa using hfree.2⟩
  obtain ⟨_, op, hop, _⟩ := inv.freeObj p hfp.1
  obtain ⟨_, oq, hoq, _⟩ := inv.freeObj q hfp.2
  have hne : q.1 ≠ p.1 := by intro e; apply hpq; simp [e]
  have kp : ∀ e ∈ op.conn, e.1 ≠ p.2 := fun e he hk => hp' (by
    have := inv.keysConnected p.1 op hop e he; rwa [hk] at this)
  have kq : ∀ e ∈ oq.conn, e.1 ≠ q.2 := fun e he hk => hq' (by
    have := inv.keysConnected q.1 oq hoq e he; rwa [hk] at this)
  have h1 := addConn_of_no_key op p.2 q kp
  have h2 := addConn_of_no_key oq q.2 p kq
  refine ⟨op, oq, fun e => hne e.symm, hp', hq', hfp.1, hfp.2, hop, hoq, ?_⟩
  unfold connect
  rw [if_neg hpq, if_neg hp, if_neg hq, if_neg hfree]
  have g1 : getObj { w with clist := w.clist ++ [p, q], conns := w.conns ++ [(p, q)], free := (w.free.erase p).erase q } p.1 = some op := hop
  simp only [g1, h1]
  have g2 : getObj (setObj { w with clist := w.clist ++ [p, q], conns := w.conns ++ [(p, q)], free := (w.free.erase p).erase q } p.1
      { op with conn := op.conn ++ [(p.2, q)], connTo := ctOf op q.1 }) q.1 = some oq := by
    rw [getObj_setObj_other _ _ _ _ hne]; exact hoq
  simp only [g2, h2]
  rfl

/-- in a consistent state, connecting two free pins of different structures is accepted and carried out in full -/
theorem connect_full (w : W) (inv : WInv w) (p q : Pin) (hne : p.1 ≠ q.1) (hfp : p ∈ w.free) (hfq : q ∈ w.free) :
    ∃ op oq, getObj w p.1 = some op ∧ getObj w q.1 = some oq ∧ connect w p q = (connectResult w p q op oq, .ok) := by
  rcases connect_cases w inv p q with h | ⟨op, oq, _, _, _, _, _, hop, hoq, h⟩
  · exfalso
    -- the call cannot have been a no-op: none of the rejecting branches applies
    have hp : p ∉ w.clist := inv.freeDisj p hfp
    have hq : q ∉ w.clist := inv.freeDisj q hfq
    have b1 : (p.1 == q.1) = false := by simpa using hne
    have b2 : w.clist.contains p = false := by simpa using hp
    have b3 : w.clist.contains q = false := by simpa using hq
    have b4 : (!(w.free.contains p) || !(w.free.contains q)) = false := by simp [hfp, hfq]
    have hfree' : (connect w p q).1.free = (w.free.erase p).erase q := by
      unfold connect
      rw [b1, b2, b3, b4]
      simp only [Bool.false_eq_true, ↓reduceIte]
      split
      · rfl
      · split
        · rfl
        · split
          · rfl
          · split <;> rfl
    rw [h.1] at hfree'
    have : p ∈ (w.free.erase p).erase q := by rw [← hfree']; exact hfp
    have h2 := List.mem_of_mem_erase this
    exact (List.Nodup.mem_erase_iff inv.freeNodup).1 h2 |>.1 rfl
  · exact ⟨op, oq, hop, hoq, h⟩

/-- **atomicity of connect**: in a consistent state a rejected `connect` leaves everything unchanged,
and `connect` never stops half-way (the outcome is never an exception raised after the tables were written) -/
theorem connect_atomic (w : W) (inv : WInv w) (p q : Pin) (h : (connect w p q).2 ≠ .ok) : (connect w p q).1 = w := by
  rcases connect_cases w inv p q with h1 | ⟨op, oq, _, _, _, _, _, _, _, h2⟩
  · exact h1.1
  · rw [h2] at h; exact absurd rfl h

theorem connect_never_partial (w : W) (inv : WInv w) (p q : Pin) : (connect w p q).2 ≠ .exception := by
  rcases connect_cases w inv p q with h1 | ⟨op, oq, _, _, _, _, _, _, _, h2⟩
  · rcases h1.2 with h | h <;> rw [h] <;> simp
  · rw [h2]; simp

/-- **idempotence**: repeating an identical connect call, in either orientation, changes nothing and succeeds -/
theorem connect_idempotent (w : W) (inv : WInv w) (p q : Pin) (hpq : p.1 ≠ q.1) (h : (p, q) ∈ w.conns)
    (hl : lookup w.conns p = some q) : connect w p q = (w, .ok) ∧ connect w q p = (w, .ok) := by
  have hp : p ∈ w.clist := by
    rw [inv.clistConns]; exact List.mem_flatMap.2 ⟨(p, q), h, by simp⟩
  have hq : q ∈ w.clist := by
    rw [inv.clistConns]; exact List.mem_flatMap.2 ⟨(p, q), h, by simp⟩
  have b1 : (p.1 == q.1) = false := by simpa using hpq
  have b2 : (q.1 == p.1) = false := by simpa using fun e => hpq e.symm
  constructor
  · unfold connect
    simp [b1, hp, hl]
  · unfold connect
    simp only [b2, Bool.false_eq_true, ↓reduceIte, List.contains_eq_mem, hq, decide_true, hl, beq_self_eq_true]
    split <;> rfl

/-- how the table of structure `i` changes under a state-changing `connect p q` -/
structure CRel (p q : Pin) (i : Nat) (o o' : SObj) : Prop where
  pins : o'.pins = o.pins
  conn : ∀ e, e ∈ o'.conn ↔ (e ∈ o.conn ∨ (i = p.1 ∧ e = (p.2, q)) ∨ (i = q.1 ∧ e = (q.2, p)))
  toMono : ∀ x ∈ o.connTo, x ∈ o'.connTo
  toNodup : o.connTo.Nodup → o'.connTo.Nodup
  toP : i = p.1 → q.1 ∈ o'.connTo
  toQ : i = q.1 → p.1 ∈ o'.connTo

theorem CRel.refl (p q : Pin) (i : Nat) (o : SObj) (h1 : i ≠ p.1) (h2 : i ≠ q.1) : CRel p q i o o :=
  ⟨rfl, fun e => by simp [h1, h2], fun _ h => h, fun h => h, fun e => absurd e h1, fun e => absurd e h2⟩

theorem CRel.left (p q : Pin) (o : SObj) (hne : p.1 ≠ q.1) : CRel p q p.1 o (addC o p.2 q) := by
  refine ⟨rfl, ?_, fun x h => mem_ctOf_of_mem o q.1 x h, ctOf_nodup o q.1, fun _ => mem_ctOf_self o q.1, fun e => absurd e hne⟩
  intro e
  simp [addC, hne]

theorem CRel.right (p q : Pin) (o : SObj) (hne : p.1 ≠ q.1) : CRel p q q.1 o (addC o q.2 p) := by
  refine ⟨rfl, ?_, fun x h => mem_ctOf_of_mem o p.1 x h, ctOf_nodup o p.1, fun e => absurd e.symm hne, fun _ => mem_ctOf_self o p.1⟩
  intro e
  have : ¬ q.1 = p.1 := fun e => hne e.symm
  simp [addC, this]

theorem connect_heap (w : W) (p q : Pin) (op oq : SObj) (hne : p.1 ≠ q.1)
    (hop : getObj w p.1 = some op) (hoq : getObj w q.1 = some oq) :
    (∀ i o, getObj w i = some o → ∃ o', getObj (connectResult w p q op oq) i = some o' ∧ CRel p q i o o') ∧
    (∀ i o', getObj (connectResult w p q op oq) i = some o' → ∃ o, getObj w i = some o ∧ CRel p q i o o') := by
  have hqp : q.1 ≠ p.1 := fun e => hne e.symm
  have gq : getObj (connectResult w p q op oq) q.1 = some (addC oq q.2 p) :=
    getObj_setObj_same _ _ oq _ (by rw [getObj_setObj_other _ _ _ _ hqp]; exact hoq)
  have gp : getObj (connectResult w p q op oq) p.1 = some (addC op p.2 q) := by
    unfold connectResult
    rw [getObj_setObj_other _ _ _ _ hne]; exact getObj_setObj_same _ _ op _ hop
  have go : ∀ i, i ≠ p.1 → i ≠ q.1 → getObj (connectResult w p q op oq) i = getObj w i := by
    intro i h1 h2
    unfold connectResult
    rw [getObj_setObj_other _ _ _ _ h2, getObj_setObj_other _ _ _ _ h1]; rfl
  constructor
  · intro i o hio
    by_cases hiq : i = q.1
    · subst hiq
      rw [hoq] at hio; cases hio
      exact ⟨_, gq, CRel.right p q oq hne⟩
    · by_cases hip : i = p.1
      · subst hip
        rw [hop] at hio; cases hio
        exact ⟨_, gp, CRel.left p q op hne⟩
      · exact ⟨o, by rw [go i hip hiq]; exact hio, CRel.refl p q i o hip hiq⟩
  · intro i o' hio
    by_cases hiq : i = q.1
    · subst hiq
      rw [gq] at hio; cases hio
      exact ⟨oq, hoq, CRel.right p q oq hne⟩
    · by_cases hip : i = p.1
      · subst hip
        rw [gp] at hio; cases hio
        exact ⟨op, hop, CRel.left p q op hne⟩
      · rw [go i hip hiq] at hio
        exact ⟨o', hio, CRel.refl p q i o' hip hiq⟩



theorem connect_inv (w : W) (inv : WInv w) (p q : Pin) : WInv (connect w p q).1 := by
  rcases connect_cases w inv p q with h | ⟨op, oq, hne, hp, hq, hfp, hfq, hop, hoq, h⟩
  · rw [h.1]; exact inv
  rw [h]
  show WInv (connectResult w p q op oq)
  obtain ⟨fw, bw⟩ := connect_heap w p q op oq hne hop hoq
  generalize hw' : connectResult w p q op oq = w' at fw bw
  have hclist : w'.clist = w.clist ++ [p, q] := by subst hw'; rfl
  have hfree : w'.free = (w.free.erase p).erase q := by subst hw'; rfl
  have hstructs : w'.structs = w.structs := by subst hw'; rfl
  have hconns : w'.conns = w.conns ++ [(p, q)] := by subst hw'; rfl
  have memfree : ∀ x, x ∈ (w.free.erase p).erase q ↔ x ∈ w.free ∧ x ≠ p ∧ x ≠ q := by
    intro x
    have hnd := inv.freeNodup
    rw [List.Nodup.mem_erase_iff (hnd.erase p), List.Nodup.mem_erase_iff hnd]
    constructor
    · rintro ⟨h1, h2, h3⟩; exact ⟨h3, h2, h1⟩
    · rintro ⟨h1, h2, h3⟩; exact ⟨h3, h2, h1⟩
  refine ⟨?_, ?_, ?_, ?_, ?_, ?_, ?_, ?_, ?_, ?_, ?_, ?_, ?_⟩
  · -- pinsNodup
    intro i o' hio
    obtain ⟨o, ho, r⟩ := bw i o' hio
    rw [r.pins]; exact inv.pinsNodup i o ho
  · -- connToNodup
    intro i o' hio
    obtain ⟨o, ho, r⟩ := bw i o' hio
    exact r.toNodup (inv.connToNodup i o ho)
  · rw [hstructs]; exact inv.structsNodup
  · -- freeObj
    intro x hx
    rw [hfree] at hx
    obtain ⟨hxf, _, _⟩ := (memfree x).1 hx
    obtain ⟨hs, o, ho, hpin⟩ := inv.freeObj x hxf
    obtain ⟨o', ho', r⟩ := fw x.1 o ho
    exact ⟨by rw [hstructs]; exact hs, o', ho', by rw [r.pins]; exact hpin⟩
  · -- clistObj
    intro x hx
    rw [hclist] at hx
    have old : (x.1 ∈ w.structs ∧ ∃ o, getObj w x.1 = some o ∧ x.2 ∈ o.pins) := by
      rcases List.mem_append.1 hx with hx | hx
      · exact inv.clistObj x hx
      · rcases List.mem_cons.1 hx with rfl | hx
        · exact inv.freeObj _ hfp
        · have : x = q := by simpa using hx
          subst this; exact inv.freeObj _ hfq
    obtain ⟨hs, o, ho, hpin⟩ := old
    obtain ⟨o', ho', r⟩ := fw x.1 o ho
    exact ⟨by rw [hstructs]; exact hs, o', ho', by rw [r.pins]; exact hpin⟩
  · -- clistNodup
    rw [hclist]
    refine List.nodup_append.2 ⟨inv.clistNodup, ?_, ?_⟩
    · refine List.nodup_cons.2 ⟨?_, by simp⟩
      intro h; have : p = q := by simpa using h
      exact hne (by rw [this])
    · intro a ha b hb
      rcases List.mem_cons.1 hb with rfl | hb
      · intro e; exact hp (e ▸ ha)
      · have : b = q := by simpa using hb
        subst this; intro e; exact hq (e ▸ ha)
  · rw [hfree]; exact (inv.freeNodup.erase p).erase q
  · -- freeDisj
    intro x hx
    rw [hfree] at hx
    rw [hclist]
    obtain ⟨hxf, hxp, hxq⟩ := (memfree x).1 hx
    intro hmem
    rcases List.mem_append.1 hmem with hmem | hmem
    · exact inv.freeDisj x hxf hmem
    · rcases List.mem_cons.1 hmem with rfl | hmem
      · exact hxp rfl
      · have : x = q := by simpa using hmem
        exact hxq this
  · rw [hclist, hconns, inv.clistConns]
    simp [List.flatMap_append]
  · -- freeComplete
    intro i hi o' hio pn hpn
    rw [hstructs] at hi
    obtain ⟨o, ho, r⟩ := bw i o' hio
    rw [r.pins] at hpn
    rw [hfree, hclist]
    rcases inv.freeComplete i hi o ho pn hpn with h | h
    · by_cases e1 : (i, pn) = p
      · right; rw [e1]; simp
      · by_cases e2 : (i, pn) = q
        · right; rw [e2]; simp
        · left; exact (memfree _).2 ⟨h, e1, e2⟩
    · right; exact List.mem_append_left _ h
  · -- entryConn
    intro i o' hio e he
    obtain ⟨o, ho, r⟩ := bw i o' hio
    rw [hconns]
    rcases (r.conn e).1 he with h | ⟨hi, rfl⟩ | ⟨hi, rfl⟩
    · rcases inv.entryConn i o ho e h with h | h
      · exact Or.inl (List.mem_append_left _ h)
      · exact Or.inr (List.mem_append_left _ h)
    · left; subst hi; simp
    · right; subst hi; simp
  · -- entryTo
    intro i o' hio e he
    obtain ⟨o, ho, r⟩ := bw i o' hio
    rcases (r.conn e).1 he with h | ⟨hi, rfl⟩ | ⟨hi, rfl⟩
    · exact r.toMono _ (inv.entryTo i o ho e h)
    · exact r.toP hi
    · exact r.toQ hi
  · -- connsEntry
    intro c hc
    rw [hconns] at hc
    rcases List.mem_append.1 hc with hc | hc
    · obtain ⟨⟨o1, ho1, m1⟩, ⟨o2, ho2, m2⟩⟩ := inv.connsEntry c hc
      obtain ⟨o1', ho1', r1⟩ := fw _ o1 ho1
      obtain ⟨o2', ho2', r2⟩ := fw _ o2 ho2
      exact ⟨⟨o1', ho1', (r1.conn _).2 (Or.inl m1)⟩, ⟨o2', ho2', (r2.conn _).2 (Or.inl m2)⟩⟩
    · have : c = (p, q) := by simpa using hc
      subst this
      obtain ⟨o1', ho1', r1⟩ := fw _ op hop
      obtain ⟨o2', ho2', r2⟩ := fw _ oq hoq
      exact ⟨⟨o1', ho1', (r1.conn _).2 (Or.inr (Or.inl ⟨rfl, rfl⟩))⟩, ⟨o2', ho2', (r2.conn _).2 (Or.inr (Or.inr ⟨rfl, rfl⟩))⟩⟩

theorem addStruct_inv (w : W) (inv : WInv w) (i : Nat) : WInv (addStruct w i).1 := by
  unfold addStruct
  split
  · exact inv
  · rename_i hnot
    split
    · exact inv
    · rename_i o ho
      have hi : i ∉ w.structs := by simpa using hnot
      refine ⟨inv.pinsNodup, inv.connToNodup, ?_, ?_, ?_, inv.clistNodup, ?_, ?_, inv.clistConns, ?_, inv.entryConn, inv.entryTo, inv.connsEntry⟩
      · -- structsNodup
        refine List.nodup_append.2 ⟨inv.structsNodup, by simp, ?_⟩
        intro a ha b hb
        have : b = i := by simpa using hb
        subst this; intro e; exact hi (e ▸ ha)
      · intro x hx
        simp only at hx
        rcases List.mem_append.1 hx with hx | hx
        · obtain ⟨hs, o', ho', hp⟩ := inv.freeObj x hx
          exact ⟨List.mem_append_left _ hs, o', ho', hp⟩
        · obtain ⟨pn, hpn, rfl⟩ := List.mem_map.1 hx
          exact ⟨List.mem_append_right _ (by simp), o, ho, hpn⟩
      · intro x hx
        obtain ⟨hs, h2⟩ := inv.clistObj x hx
        exact ⟨List.mem_append_left _ hs, h2⟩
      · simp only
        refine List.nodup_append.2 ⟨inv.freeNodup, ?_, ?_⟩
        · have := inv.pinsNodup i o ho
          rw [List.nodup_iff_pairwise_ne] at this ⊢
          exact List.Pairwise.map _ (fun a b h he => h (by simpa using he)) this
        · intro a ha b hb hab
          obtain ⟨pn, _, rfl⟩ := List.mem_map.1 hb
          subst hab
          exact hi (inv.freeObj _ ha).1
      · intro x hx
        simp only at hx ⊢
        rcases List.mem_append.1 hx with hx | hx
        · exact inv.freeDisj x hx
        · obtain ⟨pn, _, rfl⟩ := List.mem_map.1 hx
          intro hc; exact hi (inv.clistStructs _ hc)
      · -- freeComplete
        intro j hj oj hoj pn hpn
        simp only at hj ⊢
        rcases List.mem_append.1 hj with hj | hj
        · rcases inv.freeComplete j hj oj hoj pn hpn with h | h
          · exact Or.inl (List.mem_append_left _ h)
          · exact Or.inr h
        · have : j = i := by simpa using hj
          subst this
          have : oj = o := by
            have h1 : getObj w j = some oj := hoj
            rw [ho] at h1; exact (Option.some.inj h1).symm
          subst this
          exact Or.inl (List.mem_append_right _ (List.mem_map.2 ⟨pn, hpn, rfl⟩))

theorem mapPin_inv (w : W) (inv : WInv w) (n : Nat) (p : Pin) : WInv (mapPin w n p).1 := by
  unfold mapPin
  split <;> exact ⟨inv.pinsNodup, inv.connToNodup, inv.structsNodup, inv.freeObj, inv.clistObj, inv.clistNodup, inv.freeNodup,
    inv.freeDisj, inv.clistConns, inv.freeComplete, inv.entryConn, inv.entryTo, inv.connsEntry⟩

theorem init_getObj (pinCounts : List Nat) (i : Nat) (o : SObj) (h : getObj (init pinCounts) i = some o) :
    ∃ n, o = { pins := List.range n, conn := [], connTo := [] } := by
  unfold getObj init at h
  simp only at h
  cases hf : (List.map (fun nk : Nat × Nat => (nk.2, ({ pins := List.range nk.1, conn := [], connTo := [] } : SObj))) pinCounts.zipIdx).find? (·.1 == i) with
  | none => simp [hf] at h
  | some x =>
    rw [hf] at h
    have hm := List.mem_of_find?_eq_some hf
    obtain ⟨nk, _, rfl⟩ := List.mem_map.1 hm
    simp only [Option.map_some, Option.some.injEq] at h
    exact ⟨nk.1, h.symm⟩

theorem init_inv (pinCounts : List Nat) : WInv (init pinCounts) := by
  refine ⟨?_, ?_, ?_, ?_, ?_, ?_, ?_, ?_, ?_, ?_, ?_, ?_, ?_⟩
  · intro i o hio
    obtain ⟨n, rfl⟩ := init_getObj pinCounts i o hio
    exact List.nodup_range
  · intro i o hio
    obtain ⟨n, rfl⟩ := init_getObj pinCounts i o hio
    simp
  · simp [init]
  · simp [init]
  · simp [init]
  · simp [init]
  · simp [init]
  · simp [init]
  · simp [init]
  · simp [init]
  · intro i o hio e he
    obtain ⟨n, rfl⟩ := init_getObj pinCounts i o hio
    simp at he
  · intro i o hio e he
    obtain ⟨n, rfl⟩ := init_getObj pinCounts i o hio
    simp at he
  · simp [init]

end Wiring
