import LekkerVerif.Proofs.WiringInv

/-! `cut_structure` and `remove_structure` preserve the wiring invariant, for every consistent state. -/

namespace Wiring

/-! ### lists of connections whose end points are pairwise distinct -/

theorem mem_ends_flatMap (L : List (Pin × Pin)) (x : Pin) :
    x ∈ L.flatMap (fun c => [c.1, c.2]) ↔ ∃ c ∈ L, x = c.1 ∨ x = c.2 := by
  rw [List.mem_flatMap]
  constructor
  · rintro ⟨c, hc, hx⟩; exact ⟨c, hc, by simpa using hx⟩
  · rintro ⟨c, hc, hx⟩; exact ⟨c, hc, by simpa using hx⟩

theorem mem_rev_ends_flatMap (L : List (Pin × Pin)) (x : Pin) :
    x ∈ L.flatMap (fun c => [c.2, c.1]) ↔ ∃ c ∈ L, x = c.1 ∨ x = c.2 := by
  rw [List.mem_flatMap]
  constructor
  · rintro ⟨c, hc, hx⟩; exact ⟨c, hc, by simpa [or_comm] using hx⟩
  · rintro ⟨c, hc, hx⟩; exact ⟨c, hc, by simpa [or_comm] using hx⟩

/-- with pairwise distinct end points, two connections that share an end point are the same connection -/
theorem ends_uniq (L : List (Pin × Pin)) (nd : (L.flatMap fun c => [c.1, c.2]).Nodup) (c c' : Pin × Pin)
    (hc : c ∈ L) (hc' : c' ∈ L) (sh : c.1 = c'.1 ∨ c.1 = c'.2 ∨ c.2 = c'.1 ∨ c.2 = c'.2) : c = c' := by
  induction L with
  | nil => cases hc
  | cons a t ih =>
    rw [List.flatMap_cons, List.nodup_append] at nd
    obtain ⟨_, nt, dj⟩ := nd
    have inT : ∀ d ∈ t, d.1 ∈ t.flatMap (fun c => [c.1, c.2]) ∧ d.2 ∈ t.flatMap (fun c => [c.1, c.2]) :=
      fun d hd => ⟨(mem_ends_flatMap t _).2 ⟨d, hd, Or.inl rfl⟩, (mem_ends_flatMap t _).2 ⟨d, hd, Or.inr rfl⟩⟩
    rcases List.mem_cons.1 hc with rfl | hct
    · rcases List.mem_cons.1 hc' with rfl | hct'
      · rfl
      · exfalso
        obtain ⟨h1, h2⟩ := inT c' hct'
        rcases sh with e | e | e | e
        · exact dj c.1 (by simp) c'.1 h1 e
        · exact dj c.1 (by simp) c'.2 h2 e
        · exact dj c.2 (by simp) c'.1 h1 e
        · exact dj c.2 (by simp) c'.2 h2 e
    · rcases List.mem_cons.1 hc' with rfl | hct'
      · exfalso
        obtain ⟨h1, h2⟩ := inT c hct
        rcases sh with e | e | e | e
        · exact dj c'.1 (by simp) c.1 h1 e.symm
        · exact dj c'.2 (by simp) c.1 h1 e.symm
        · exact dj c'.1 (by simp) c.2 h2 e.symm
        · exact dj c'.2 (by simp) c.2 h2 e.symm
      · exact ih nt hct hct'

theorem flatMap_congr' {α β : Type} (L : List α) (f g : α → List β) (h : ∀ c ∈ L, f c = g c) : L.flatMap f = L.flatMap g := by
  induction L with
  | nil => rfl
  | cons a t ih =>
    rw [List.flatMap_cons, List.flatMap_cons, h a (by simp), ih (fun c hc => h c (List.mem_cons_of_mem _ hc))]

theorem flatMap_filter_not {α β : Type} (L : List α) (P : α → Bool) (f : α → List β) :
    (L.filter fun c => !P c).flatMap f = L.flatMap (fun c => if P c then [] else f c) := by
  induction L with
  | nil => rfl
  | cons a t ih =>
    cases h : P a
    · rw [List.filter_cons_of_pos (by simp [h]), List.flatMap_cons, List.flatMap_cons, ih]; simp [h]
    · rw [List.filter_cons_of_neg (by simp [h]), List.flatMap_cons, ih]; simp [h]

/-- removing from the end-point list every end point of a selected connection = the end points of the others -/
theorem filter_ends (L : List (Pin × Pin)) (nd : (L.flatMap fun c => [c.1, c.2]).Nodup) (P : Pin × Pin → Bool) :
    (L.flatMap fun c => [c.1, c.2]).filter (fun x => !((L.filter P).any fun c => c.1 == x || c.2 == x))
      = (L.filter fun c => !P c).flatMap (fun c => [c.1, c.2]) := by
  rw [List.filter_flatMap, flatMap_filter_not]
  apply flatMap_congr'
  intro c hc
  have key : ∀ x, (x = c.1 ∨ x = c.2) → ((L.filter P).any fun c' => c'.1 == x || c'.2 == x) = P c := by
    intro x hx
    cases hP : P c
    · rw [Bool.eq_false_iff]
      intro hany
      obtain ⟨c', hc', hsh⟩ := List.any_eq_true.1 hany
      obtain ⟨hc'L, hPc'⟩ := List.mem_filter.1 hc'
      have : c' = c := by
        apply ends_uniq L nd c' c hc'L hc
        simp only [Bool.or_eq_true, beq_iff_eq] at hsh
        rcases hsh with e | e <;> rcases hx with rfl | rfl
        · exact Or.inl e
        · exact Or.inr (Or.inl e)
        · exact Or.inr (Or.inr (Or.inl e))
        · exact Or.inr (Or.inr (Or.inr e))
      rw [this, hP] at hPc'; cases hPc'
    · apply List.any_eq_true.2
      refine ⟨c, List.mem_filter.2 ⟨hc, hP⟩, ?_⟩
      rcases hx with rfl | rfl <;> simp
  simp only [List.filter_cons, List.filter_nil, key c.1 (Or.inl rfl), key c.2 (Or.inr rfl)]
  cases P c <;> simp

theorem rev_ends_nodup (L : List (Pin × Pin)) (nd : (L.flatMap fun c => [c.1, c.2]).Nodup) (P : Pin × Pin → Bool) :
    ((L.filter P).flatMap fun c => [c.2, c.1]).Nodup := by
  induction L with
  | nil => simp
  | cons a t ih =>
    rw [List.flatMap_cons, List.nodup_append] at nd
    obtain ⟨na, nt, dj⟩ := nd
    cases h : P a
    · rw [List.filter_cons_of_neg (by simp [h])]; exact ih nt
    · rw [List.filter_cons_of_pos h, List.flatMap_cons, List.nodup_append]
      refine ⟨?_, ih nt, ?_⟩
      · have : a.1 ≠ a.2 := by simpa using na
        have h2 : ¬ a.2 = a.1 := fun e => this e.symm
        simp [h2]
      · intro x hx y hy
        obtain ⟨c, hc, hyc⟩ := (mem_rev_ends_flatMap _ y).1 hy
        have hct : c ∈ t := (List.mem_filter.1 hc).1
        have : y ∈ t.flatMap fun c => [c.1, c.2] := (mem_ends_flatMap t y).2 ⟨c, hct, hyc⟩
        have hx' : x ∈ [a.1, a.2] := by simpa [or_comm] using hx
        exact dj x hx' y this

/-! ### the neighbours' tables -/

/-- how the table of a *neighbour* changes when structure `i` is cut (`rm = false`) or removed (`rm = true`) -/
structure DRel (rm : Bool) (i : Nat) (o o' : SObj) : Prop where
  pins : ∀ x, x ∈ o'.pins ↔ (x ∈ o.pins ∧ (rm = true → ∀ e ∈ o.conn, ¬ (e.1 = x ∧ e.2.1 = i)))
  pinsNodup : o.pins.Nodup → o'.pins.Nodup
  conn : ∀ e, e ∈ o'.conn ↔ (e ∈ o.conn ∧ e.2.1 ≠ i)
  toMono : ∀ x ∈ o.connTo, x ≠ i → x ∈ o'.connTo
  toNodup : o.connTo.Nodup → o'.connTo.Nodup

theorem DRel.cut (i : Nat) (o : SObj) : DRel false i o (cutConnections o i) := by
  refine ⟨fun x => by simp [cutConnections], fun h => h, fun e => by simp [cutConnections], ?_, fun h => h.erase i⟩
  intro x hx hne
  exact (List.mem_erase_of_ne hne).2 hx

theorem DRel.remove (i : Nat) (o : SObj) : DRel true i o (removeConnections o i) := by
  refine ⟨?_, fun h => h.filter _, fun e => by simp [removeConnections], ?_, fun h => h.erase i⟩
  · intro x
    simp only [removeConnections, List.mem_filter, Bool.not_eq_true', List.any_eq_false, Bool.and_eq_true, beq_iff_eq,
      forall_const]
  · intro x hx hne
    exact (List.mem_erase_of_ne hne).2 hx

/-- a structure none of whose entries points at `i` is left as it is -/
theorem DRel.untouched (rm : Bool) (i : Nat) (o : SObj) (h : ∀ e ∈ o.conn, e.2.1 ≠ i) : DRel rm i o o := by
  refine ⟨?_, fun h => h, ?_, fun x hx _ => hx, fun h => h⟩
  · intro x
    constructor
    · intro hx; exact ⟨hx, fun _ e he hh => h e he hh.2⟩
    · intro hx; exact hx.1
  · intro e
    constructor
    · intro he; exact ⟨he, h e he⟩
    · intro he; exact he.1

/-! ### the loop over the neighbours -/

def nbStep (f : SObj → SObj) (w : W) (n : Nat) : W :=
  match getObj w n with
  | some on => setObj w n (f on)
  | none => w

def nbFold (f : SObj → SObj) (l : List Nat) (w : W) : W := l.foldl (nbStep f) w

theorem nbStep_heapOnly (f : SObj → SObj) (w : W) (n : Nat) : ∃ h, nbStep f w n = { w with heap := h } := by
  unfold nbStep
  cases getObj w n with
  | none => exact ⟨w.heap, rfl⟩
  | some on => exact ⟨_, rfl⟩

theorem nbFold_heapOnly (f : SObj → SObj) (l : List Nat) (w : W) : ∃ h, nbFold f l w = { w with heap := h } := by
  induction l generalizing w with
  | nil => exact ⟨w.heap, rfl⟩
  | cons n t ih =>
    obtain ⟨h1, e1⟩ := nbStep_heapOnly f w n
    obtain ⟨h2, e2⟩ := ih (nbStep f w n)
    refine ⟨h2, ?_⟩
    show nbFold f t (nbStep f w n) = _
    rw [e2, e1]

theorem nbFold_get (f : SObj → SObj) (l : List Nat) (w : W) (nd : l.Nodup) (j : Nat) :
    getObj (nbFold f l w) j = (getObj w j).map (fun oj => if j ∈ l then f oj else oj) := by
  induction l generalizing w with
  | nil => cases h : getObj w j <;> simp [nbFold, h]
  | cons n t ih =>
    have hn : n ∉ t := (List.nodup_cons.1 nd).1
    show getObj (nbFold f t (nbStep f w n)) j = _
    rw [ih _ (List.nodup_cons.1 nd).2]
    unfold nbStep
    cases hw : getObj w n with
    | none =>
      simp only
      by_cases hj : j = n
      · subst hj; rw [hw]; rfl
      · cases getObj w j <;> simp [hj]
    | some on =>
      simp only
      by_cases hj : j = n
      · subst hj
        rw [getObj_setObj_same w j on _ hw, hw]
        simp [hn]
      · rw [getObj_setObj_other w n j _ hj]
        cases getObj w j <;> simp [hj]


/-! ### the invariant survives -/

theorem involves_iff (i : Nat) (c : Pin × Pin) : involves i c = true ↔ (c.1.1 = i ∨ c.2.1 = i) := by
  simp [involves]

def isT (w : W) (i : Nat) (x : Pin) : Bool := (w.conns.filter (involves i)).any fun c => c.1 == x || c.2 == x

theorem isT_iff (w : W) (i : Nat) (x : Pin) :
    isT w i x = true ↔ ∃ c ∈ w.conns, (c.1.1 = i ∨ c.2.1 = i) ∧ (c.1 = x ∨ c.2 = x) := by
  unfold isT
  rw [List.any_eq_true]
  constructor
  · rintro ⟨c, hc, hx⟩
    obtain ⟨h1, h2⟩ := List.mem_filter.1 hc
    exact ⟨c, h1, (involves_iff i c).1 h2, by simpa using hx⟩
  · rintro ⟨c, hc, hi, hx⟩
    exact ⟨c, List.mem_filter.2 ⟨hc, (involves_iff i c).2 hi⟩, by simpa using hx⟩

/-- the state reached by detaching structure `i` (cut: `rm = false`, remove: `rm = true`), described by
what happened to every table, is consistent again -/
theorem detach_inv (rm : Bool) (w w' : W) (i : Nat) (o oi' : SObj) (inv : WInv w)
    (ho : getObj w i = some o)
    (hoi : getObj w' i = some oi') (hoic : oi'.conn = []) (hoit : oi'.connTo = []) (hoip : oi'.pins = o.pins)
    (fw : ∀ j, j ≠ i → ∀ oj, getObj w j = some oj → ∃ oj', getObj w' j = some oj' ∧ DRel rm i oj oj')
    (bw : ∀ j, j ≠ i → ∀ oj', getObj w' j = some oj' → ∃ oj, getObj w j = some oj ∧ DRel rm i oj oj')
    (hstructs : w'.structs = w.structs.erase i)
    (hconns : w'.conns = w.conns.filter (fun c => !(involves i c)))
    (hclist : w'.clist = w.clist.filter (fun x => !(isT w i x)))
    (hfree : w'.free = (w.free ++ (if rm then [] else (w.conns.filter (involves i)).flatMap fun c => [c.2, c.1])).filter
                (fun x => x.1 != i)) : WInv w' := by
  -- facts about touched end points
  have F4 : ∀ x ∈ w.clist, x.1 = i → isT w i x = true := by
    intro x hx hxi
    obtain ⟨c, hc, hxc⟩ := (mem_clist_iff inv x).1 hx
    refine (isT_iff w i x).2 ⟨c, hc, ?_, ?_⟩
    · rcases hxc with rfl | rfl
      · exact Or.inl hxi
      · exact Or.inr hxi
    · rcases hxc with rfl | rfl
      · exact Or.inl rfl
      · exact Or.inr rfl
  have F6 : ∀ x, isT w i x = true → x.1 ≠ i → ∃ ox e, getObj w x.1 = some ox ∧ e ∈ ox.conn ∧ e.1 = x.2 ∧ e.2.1 = i := by
    intro x hx hxi
    obtain ⟨c, hc, hinv, hend⟩ := (isT_iff w i x).1 hx
    obtain ⟨⟨o1, ho1, m1⟩, ⟨o2, ho2, m2⟩⟩ := inv.connsEntry c hc
    rcases hend with rfl | rfl
    · have : c.2.1 = i := by
        rcases hinv with h | h
        · exact absurd h hxi
        · exact h
      exact ⟨o1, _, ho1, m1, rfl, this⟩
    · have : c.1.1 = i := by
        rcases hinv with h | h
        · exact h
        · exact absurd h hxi
      exact ⟨o2, _, ho2, m2, rfl, this⟩
  have F7 : ∀ j oj, getObj w j = some oj → ∀ e ∈ oj.conn, e.2.1 = i → isT w i (j, e.1) = true := by
    intro j oj hoj e he hei
    rcases inv.entryConn j oj hoj e he with h | h
    · exact (isT_iff w i _).2 ⟨_, h, Or.inr hei, Or.inl rfl⟩
    · exact (isT_iff w i _).2 ⟨_, h, Or.inl hei, Or.inr rfl⟩
  have memclist' : ∀ x, x ∈ w'.clist ↔ (x ∈ w.clist ∧ isT w i x = false) := by
    intro x; rw [hclist, List.mem_filter]; simp
  have clist'_ne : ∀ x ∈ w'.clist, x.1 ≠ i := by
    intro x hx hxi
    obtain ⟨h1, h2⟩ := (memclist' x).1 hx
    rw [F4 x h1 hxi] at h2; cases h2
  have memextra : ∀ x, x ∈ (if rm then [] else (w.conns.filter (involves i)).flatMap fun c => [c.2, c.1]) ↔
      (rm = false ∧ isT w i x = true) := by
    intro x
    cases rm
    · simp only [Bool.false_eq_true, ↓reduceIte, true_and]
      rw [mem_rev_ends_flatMap, isT_iff]
      constructor
      · rintro ⟨c, hc, hx⟩
        obtain ⟨h1, h2⟩ := List.mem_filter.1 hc
        exact ⟨c, h1, (involves_iff i c).1 h2, by rcases hx with rfl | rfl <;> simp⟩
      · rintro ⟨c, hc, hi, hx⟩
        exact ⟨c, List.mem_filter.2 ⟨hc, (involves_iff i c).2 hi⟩, by rcases hx with rfl | rfl <;> simp⟩
    · simp
  have memfree' : ∀ x, x ∈ w'.free ↔ (x.1 ≠ i ∧ (x ∈ w.free ∨ (rm = false ∧ isT w i x = true))) := by
    intro x
    rw [hfree, List.mem_filter, List.mem_append, memextra]
    simp [and_comm]
  have isT_clist : ∀ x, isT w i x = true → x ∈ w.clist := by
    intro x hx
    obtain ⟨c, hc, _, hend⟩ := (isT_iff w i x).1 hx
    exact (mem_clist_iff inv x).2 ⟨c, hc, by rcases hend with rfl | rfl <;> simp⟩
  have structs' : ∀ j, j ∈ w'.structs ↔ (j ∈ w.structs ∧ j ≠ i) := by
    intro j; rw [hstructs, List.Nodup.mem_erase_iff inv.structsNodup]; exact and_comm
  -- objects of the new state
  have objs : ∀ j oj', getObj w' j = some oj' → (j = i ∧ oj' = oi') ∨ (j ≠ i ∧ ∃ oj, getObj w j = some oj ∧ DRel rm i oj oj') := by
    intro j oj' h
    by_cases hj : j = i
    · subst hj; rw [hoi] at h; exact Or.inl ⟨rfl, (Option.some.inj h).symm⟩
    · exact Or.inr ⟨hj, bw j hj oj' h⟩
  refine ⟨?_, ?_, ?_, ?_, ?_, ?_, ?_, ?_, ?_, ?_, ?_, ?_, ?_⟩
  · -- pinsNodup
    intro j oj' h
    rcases objs j oj' h with ⟨rfl, rfl⟩ | ⟨_, oj, hoj, r⟩
    · rw [hoip]; exact inv.pinsNodup _ o ho
    · exact r.pinsNodup (inv.pinsNodup j oj hoj)
  · -- connToNodup
    intro j oj' h
    rcases objs j oj' h with ⟨rfl, rfl⟩ | ⟨_, oj, hoj, r⟩
    · rw [hoit]; simp
    · exact r.toNodup (inv.connToNodup j oj hoj)
  · rw [hstructs]; exact inv.structsNodup.erase i
  · -- freeObj
    intro x hx
    obtain ⟨hxi, hcase⟩ := (memfree' x).1 hx
    have base : x.1 ∈ w.structs ∧ ∃ ox, getObj w x.1 = some ox ∧ x.2 ∈ ox.pins ∧
        (rm = true → ∀ e ∈ ox.conn, ¬ (e.1 = x.2 ∧ e.2.1 = i)) := by
      rcases hcase with hf | ⟨hrm, ht⟩
      · obtain ⟨hs, ox, hox, hp⟩ := inv.freeObj x hf
        refine ⟨hs, ox, hox, hp, ?_⟩
        intro _ e he hh
        have := inv.keysConnected x.1 ox hox e he
        rw [hh.1] at this
        exact inv.freeDisj x hf this
      · obtain ⟨hs, ox, hox, hp⟩ := inv.clistObj x (isT_clist x ht)
        exact ⟨hs, ox, hox, hp, fun h => by rw [hrm] at h; cases h⟩
    obtain ⟨hs, ox, hox, hp, hcond⟩ := base
    obtain ⟨ox', hox', r⟩ := fw x.1 hxi ox hox
    exact ⟨(structs' _).2 ⟨hs, hxi⟩, ox', hox', (r.pins _).2 ⟨hp, hcond⟩⟩
  · -- clistObj
    intro x hx
    have hxi := clist'_ne x hx
    obtain ⟨hxc, hnt⟩ := (memclist' x).1 hx
    obtain ⟨hs, ox, hox, hp⟩ := inv.clistObj x hxc
    obtain ⟨ox', hox', r⟩ := fw x.1 hxi ox hox
    refine ⟨(structs' _).2 ⟨hs, hxi⟩, ox', hox', (r.pins _).2 ⟨hp, ?_⟩⟩
    intro _ e he hh
    have := F7 x.1 ox hox e he hh.2
    rw [hh.1] at this
    rw [this] at hnt; cases hnt
  · rw [hclist]; exact inv.clistNodup.filter _
  · -- freeNodup
    rw [hfree]
    suffices nd : (w.free ++ (if rm then [] else (w.conns.filter (involves i)).flatMap fun c => [c.2, c.1])).Nodup from nd.filter _
    refine List.nodup_append.2 ⟨inv.freeNodup, ?_, ?_⟩
    · cases rm
      · simp only [Bool.false_eq_true, ↓reduceIte]
        exact rev_ends_nodup w.conns (by rw [← inv.clistConns]; exact inv.clistNodup) _
      · simp
    · intro a ha b hb hab
      subst hab
      exact inv.freeDisj a ha (isT_clist a ((memextra a).1 hb).2)
  · -- freeDisj
    intro x hx hxc
    obtain ⟨_, hcase⟩ := (memfree' x).1 hx
    obtain ⟨hxc, hnt⟩ := (memclist' x).1 hxc
    rcases hcase with hf | ⟨_, ht⟩
    · exact inv.freeDisj x hf hxc
    · rw [ht] at hnt; cases hnt
  · -- clistConns
    rw [hclist, hconns, inv.clistConns]
    exact filter_ends w.conns (by rw [← inv.clistConns]; exact inv.clistNodup) (involves i)
  · -- freeComplete
    intro j hj oj' hoj' pn hpn
    obtain ⟨hjs, hji⟩ := (structs' j).1 hj
    obtain ⟨oj, hoj, r⟩ := bw j hji oj' hoj'
    obtain ⟨hpo, hcond⟩ := (r.pins pn).1 hpn
    rcases inv.freeComplete j hjs oj hoj pn hpo with h | h
    · exact Or.inl ((memfree' _).2 ⟨hji, Or.inl h⟩)
    · cases ht : isT w i (j, pn)
      · exact Or.inr ((memclist' _).2 ⟨h, ht⟩)
      · cases hrm : rm
        · exact Or.inl ((memfree' _).2 ⟨hji, Or.inr ⟨hrm, ht⟩⟩)
        · exfalso
          obtain ⟨ox, e, hox, he, h1, h2⟩ := F6 (j, pn) ht hji
          have : ox = oj := by
            have h' : getObj w j = some ox := hox
            rw [hoj] at h'; exact (Option.some.inj h').symm
          subst this
          exact hcond hrm e he ⟨h1, h2⟩
  · -- entryConn
    intro j oj' h e he
    rcases objs j oj' h with ⟨rfl, rfl⟩ | ⟨hji, oj, hoj, r⟩
    · rw [hoic] at he; cases he
    · obtain ⟨heo, hei⟩ := (r.conn e).1 he
      rw [hconns]
      rcases inv.entryConn j oj hoj e heo with hc | hc
      · left
        refine List.mem_filter.2 ⟨hc, ?_⟩
        have : involves i ((j, e.1), e.2) = false := by
          rw [Bool.eq_false_iff, Ne, involves_iff]; rintro (h | h)
          · exact hji h
          · exact hei h
        simp [this]
      · right
        refine List.mem_filter.2 ⟨hc, ?_⟩
        have : involves i (e.2, (j, e.1)) = false := by
          rw [Bool.eq_false_iff, Ne, involves_iff]; rintro (h | h)
          · exact hei h
          · exact hji h
        simp [this]
  · -- entryTo
    intro j oj' h e he
    rcases objs j oj' h with ⟨rfl, rfl⟩ | ⟨hji, oj, hoj, r⟩
    · rw [hoic] at he; cases he
    · obtain ⟨heo, hei⟩ := (r.conn e).1 he
      exact r.toMono _ (inv.entryTo j oj hoj e heo) hei
  · -- connsEntry
    intro c hc
    rw [hconns] at hc
    obtain ⟨hcw, hni⟩ := List.mem_filter.1 hc
    have hni' : ¬ (c.1.1 = i ∨ c.2.1 = i) := by
      intro h; rw [(involves_iff i c).2 h] at hni; cases hni
    have h1 : c.1.1 ≠ i := fun h => hni' (Or.inl h)
    have h2 : c.2.1 ≠ i := fun h => hni' (Or.inr h)
    obtain ⟨⟨o1, ho1, m1⟩, ⟨o2, ho2, m2⟩⟩ := inv.connsEntry c hcw
    obtain ⟨o1', ho1', r1⟩ := fw _ h1 o1 ho1
    obtain ⟨o2', ho2', r2⟩ := fw _ h2 o2 ho2
    exact ⟨⟨o1', ho1', (r1.conn _).2 ⟨m1, h2⟩⟩, ⟨o2', ho2', (r2.conn _).2 ⟨m2, h1⟩⟩⟩


/-- the state `cut_structure` / `remove_structure` build from the state `w0` left by the loop over the neighbours -/
def detachResult (rm : Bool) (i : Nat) (o : SObj) (w0 : W) : W :=
  let w1 := setObj w0 i { o with conn := [], connTo := [] }
  let touched := w1.conns.filter (involves i)
  { w1 with structs := w1.structs.erase i,
            conns := w1.conns.filter fun c => !(involves i c),
            clist := w1.clist.filter fun p => !(touched.any fun c => c.1 == p || c.2 == p),
            free := if rm then w1.free.filter fun p => p.1 != i
                    else (w1.free ++ touched.flatMap fun c => [c.2, c.1]).filter fun p => p.1 != i,
            mapping := w1.mapping.filter fun m => m.2.1 != i }

theorem cutStruct_eq (w : W) (i : Nat) (o : SObj) (hs : i ∈ w.structs) (ho : getObj w i = some o) :
    cutStruct w i = (detachResult false i o (nbFold (fun on => cutConnections on i) o.connTo w), .ok) := by
  unfold cutStruct
  have : (!w.structs.contains i) = false := by simpa using hs
  rw [this]
  simp only [Bool.false_eq_true, ↓reduceIte, ho]
  rfl

theorem removeStruct_eq (w : W) (i : Nat) (o : SObj) (hs : i ∈ w.structs) (ho : getObj w i = some o) :
    removeStruct w i = (detachResult true i o (nbFold (fun on => removeConnections on i) o.connTo w), .ok) := by
  unfold removeStruct
  have : (!w.structs.contains i) = false := by simpa using hs
  rw [this]
  simp only [Bool.false_eq_true, ↓reduceIte, ho]
  rfl

theorem detachResult_inv (rm : Bool) (w : W) (inv : WInv w) (i : Nat) (o : SObj) (ho : getObj w i = some o)
    (f : SObj → SObj) (hf : ∀ oj, DRel rm i oj (f oj)) :
    WInv (detachResult rm i o (nbFold f o.connTo w)) := by
  obtain ⟨hp, he⟩ := nbFold_heapOnly f o.connTo w
  have hget := nbFold_get f o.connTo w (inv.connToNodup i o ho)
  generalize nbFold f o.connTo w = w0 at he hget
  subst he
  have gi : getObj (detachResult rm i o { w with heap := hp }) i = some { o with conn := [], connTo := [] } := by
    show getObj (setObj { w with heap := hp } i _) i = _
    have : getObj { w with heap := hp } i = some (if i ∈ o.connTo then f o else o) := by rw [hget i, ho]; rfl
    exact getObj_setObj_same _ i _ _ this
  have gj : ∀ j, j ≠ i → getObj (detachResult rm i o { w with heap := hp }) j
      = (getObj w j).map (fun oj => if j ∈ o.connTo then f oj else oj) := by
    intro j hj
    show getObj (setObj { w with heap := hp } i _) j = _
    rw [getObj_setObj_other _ i j _ hj, hget j]
  have rel : ∀ j, j ≠ i → ∀ oj, getObj w j = some oj → DRel rm i oj (if j ∈ o.connTo then f oj else oj) := by
    intro j hj oj hoj
    by_cases hm : j ∈ o.connTo
    · rw [if_pos hm]; exact hf oj
    · rw [if_neg hm]
      apply DRel.untouched
      intro e he hei
      obtain ⟨ot, hot, hjt⟩ := inv.recip j oj hoj e he
      rw [hei, ho] at hot
      cases hot
      exact hm hjt
  refine detach_inv rm w _ i o { o with conn := [], connTo := [] } inv ho gi rfl rfl rfl ?_ ?_ rfl rfl rfl ?_
  · intro j hj oj hoj
    exact ⟨_, by rw [gj j hj, hoj]; rfl, rel j hj oj hoj⟩
  · intro j hj oj' hoj'
    rw [gj j hj] at hoj'
    cases hoj : getObj w j with
    | none => rw [hoj] at hoj'; cases hoj'
    | some oj =>
      rw [hoj] at hoj'
      simp only [Option.map_some, Option.some.injEq] at hoj'
      subst hoj'
      exact ⟨oj, rfl, rel j hj oj hoj⟩
  · cases rm
    · rfl
    · show List.filter _ _ = List.filter _ (w.free ++ [])
      rw [List.append_nil]; rfl

theorem cutStruct_inv (w : W) (inv : WInv w) (i : Nat) : WInv (cutStruct w i).1 := by
  by_cases hs : i ∈ w.structs
  · cases ho : getObj w i with
    | none =>
      have : (cutStruct w i).1 = w := by
        unfold cutStruct
        have : (!w.structs.contains i) = false := by simpa using hs
        rw [this]; simp [ho]
      rw [this]; exact inv
    | some o =>
      rw [cutStruct_eq w i o hs ho]
      exact detachResult_inv false w inv i o ho _ (fun oj => DRel.cut i oj)
  · have : (cutStruct w i).1 = w := by
      unfold cutStruct
      have : (!w.structs.contains i) = true := by simpa using hs
      rw [this]; rfl
    rw [this]; exact inv

theorem removeStruct_inv (w : W) (inv : WInv w) (i : Nat) : WInv (removeStruct w i).1 := by
  by_cases hs : i ∈ w.structs
  · cases ho : getObj w i with
    | none =>
      have : (removeStruct w i).1 = w := by
        unfold removeStruct
        have : (!w.structs.contains i) = false := by simpa using hs
        rw [this]; simp [ho]
      rw [this]; exact inv
    | some o =>
      rw [removeStruct_eq w i o hs ho]
      exact detachResult_inv true w inv i o ho _ (fun oj => DRel.remove i oj)
  · have : (removeStruct w i).1 = w := by
      unfold removeStruct
      have : (!w.structs.contains i) = true := by simpa using hs
      rw [this]; rfl
    rw [this]; exact inv

/-- **every wiring call preserves the consistency of all tables** -/
theorem step_inv (w : W) (inv : WInv w) (op : Op) : WInv (step w op).1 := by
  cases op with
  | add i => exact addStruct_inv w inv i
  | connect p q => exact connect_inv w inv p q
  | cut i => exact cutStruct_inv w inv i
  | remove i => exact removeStruct_inv w inv i
  | map n p => exact mapPin_inv w inv n p

theorem run_inv (ops : List Op) (w : W) (inv : WInv w) : WInv (ops.foldl (fun w op => (step w op).1) w) := by
  induction ops generalizing w with
  | nil => exact inv
  | cons op ops ih => exact ih _ (step_inv w inv op)


/-! ### what a cut leaves behind -/

theorem mem_touched_rev (w : W) (i : Nat) (x : Pin) :
    x ∈ ((w.conns.filter (involves i)).flatMap fun c => [c.2, c.1]) ↔ isT w i x = true := by
  rw [mem_rev_ends_flatMap, isT_iff]
  constructor
  · rintro ⟨c, hc, hx⟩
    obtain ⟨h1, h2⟩ := List.mem_filter.1 hc
    exact ⟨c, h1, (involves_iff i c).1 h2, by rcases hx with rfl | rfl <;> simp⟩
  · rintro ⟨c, hc, hi, hx⟩
    exact ⟨c, List.mem_filter.2 ⟨hc, (involves_iff i c).2 hi⟩, by rcases hx with rfl | rfl <;> simp⟩

/-- the free pins after a cut: the old free pins and the pins that faced the cut structure, minus the cut structure's own -/
theorem cut_free_mem (w : W) (i : Nat) (o : SObj) (hs : i ∈ w.structs) (ho : getObj w i = some o) (x : Pin) :
    x ∈ (cutStruct w i).1.free ↔ (x.1 ≠ i ∧ (x ∈ w.free ∨ isT w i x = true)) := by
  rw [cutStruct_eq w i o hs ho]
  obtain ⟨hp, he⟩ := nbFold_heapOnly (fun on => cutConnections on i) o.connTo w
  rw [he]
  show x ∈ List.filter (fun p => p.1 != i) (w.free ++ ((w.conns.filter (involves i)).flatMap fun c => [c.2, c.1])) ↔ _
  rw [List.mem_filter, List.mem_append, mem_touched_rev]
  simp [and_comm]

theorem cut_structs (w : W) (i : Nat) (o : SObj) (hs : i ∈ w.structs) (ho : getObj w i = some o) :
    (cutStruct w i).1.structs = w.structs.erase i := by
  rw [cutStruct_eq w i o hs ho]
  obtain ⟨hp, he⟩ := nbFold_heapOnly (fun on => cutConnections on i) o.connTo w
  rw [he]; rfl

theorem cut_obj (w : W) (inv : WInv w) (i : Nat) (o : SObj) (hs : i ∈ w.structs) (ho : getObj w i = some o) :
    getObj (cutStruct w i).1 i = some { o with conn := [], connTo := [] } := by
  rw [cutStruct_eq w i o hs ho]
  have hget := nbFold_get (fun on => cutConnections on i) o.connTo w (inv.connToNodup i o ho) i
  show getObj (setObj (nbFold (fun on => cutConnections on i) o.connTo w) i _) i = _
  refine getObj_setObj_same _ i (if i ∈ o.connTo then cutConnections o i else o) _ ?_
  rw [hget, ho]; rfl

/-- **pins freed by a cut can be wired again**: a pin that faced the cut structure is free afterwards, and
connecting it to any other free pin of another structure is accepted -/
theorem cut_freed_rewirable (w : W) (inv : WInv w) (i : Nat) (o : SObj) (hs : i ∈ w.structs) (ho : getObj w i = some o)
    (x : Pin) (hx : isT w i x = true) (hxi : x.1 ≠ i) :
    x ∈ (cutStruct w i).1.free ∧
    ∀ y ∈ (cutStruct w i).1.free, y.1 ≠ x.1 → (connect (cutStruct w i).1 x y).2 = .ok := by
  have hfree : x ∈ (cutStruct w i).1.free := (cut_free_mem w i o hs ho x).2 ⟨hxi, Or.inr hx⟩
  refine ⟨hfree, fun y hy hne => ?_⟩
  obtain ⟨_, _, _, _, h⟩ := connect_full _ (cutStruct_inv w inv i) x y (fun e => hne e.symm) hfree hy
  rw [h]

/-- **a structure that was cut can be added again**: the call is accepted and all of its pins are free -/
theorem cut_then_add (w : W) (inv : WInv w) (i : Nat) (o : SObj) (hs : i ∈ w.structs) (ho : getObj w i = some o) :
    (addStruct (cutStruct w i).1 i).2 = .ok ∧ ∀ p ∈ o.pins, (i, p) ∈ (addStruct (cutStruct w i).1 i).1.free := by
  have hnot : i ∉ (cutStruct w i).1.structs := by
    rw [cut_structs w i o hs ho, List.Nodup.mem_erase_iff inv.structsNodup]; exact fun h => h.1 rfl
  have hobj := cut_obj w inv i o hs ho
  have hc : (cutStruct w i).1.structs.contains i = false := by simpa using hnot
  unfold addStruct
  rw [hc]
  simp only [Bool.false_eq_true, ↓reduceIte, hobj]
  refine ⟨trivial, fun p hp => ?_⟩
  exact List.mem_append_right _ (List.mem_map.2 ⟨p, hp, rfl⟩)


/-! ### removing a structure without pins (what `prune()` does to a dead placement) touches no wiring -/

theorem remove_pinless (w : W) (inv : WInv w) (i : Nat) (o : SObj) (hs : i ∈ w.structs) (ho : getObj w i = some o)
    (hp : o.pins = []) :
    (removeStruct w i).1.conns = w.conns ∧ (removeStruct w i).1.clist = w.clist ∧ (removeStruct w i).1.free = w.free ∧
    (removeStruct w i).1.structs = w.structs.erase i := by
  have nopin : ∀ x : Pin, x.1 = i → ∀ o', getObj w x.1 = some o' → x.2 ∉ o'.pins := by
    intro x hx o' ho' hmem
    rw [hx, ho] at ho'
    cases ho'
    rw [hp] at hmem; cases hmem
  have noinv : ∀ c ∈ w.conns, involves i c = false := by
    intro c hc
    rw [Bool.eq_false_iff, Ne, involves_iff]
    rintro (h | h)
    · obtain ⟨_, o', ho', hm⟩ := inv.clistObj c.1 ((mem_clist_iff inv _).2 ⟨c, hc, Or.inl rfl⟩)
      exact nopin c.1 h o' ho' hm
    · obtain ⟨_, o', ho', hm⟩ := inv.clistObj c.2 ((mem_clist_iff inv _).2 ⟨c, hc, Or.inr rfl⟩)
      exact nopin c.2 h o' ho' hm
  have notT : ∀ x, isT w i x = false := by
    intro x
    rw [Bool.eq_false_iff, Ne, isT_iff]
    rintro ⟨c, hc, hi, _⟩
    have := noinv c hc
    rw [(involves_iff i c).2 hi] at this; cases this
  rw [removeStruct_eq w i o hs ho]
  obtain ⟨hp', he⟩ := nbFold_heapOnly (fun on => removeConnections on i) o.connTo w
  rw [he]
  refine ⟨?_, ?_, ?_, rfl⟩
  · show List.filter (fun c => !(involves i c)) w.conns = w.conns
    rw [List.filter_eq_self]
    intro c hc; simp [noinv c hc]
  · show List.filter (fun x => !(isT w i x)) w.clist = w.clist
    rw [List.filter_eq_self]
    intro x _; simp [notT x]
  · show List.filter (fun x => x.1 != i) w.free = w.free
    rw [List.filter_eq_self]
    intro x hx
    obtain ⟨_, o', ho', hm⟩ := inv.freeObj x hx
    have : x.1 ≠ i := fun h => nopin x h o' ho' hm
    simpa using this

end Wiring
