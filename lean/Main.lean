import Lean.Data.Json
import LekkerVerif.Core.Sched
import LekkerVerif.Core.Batch
import LekkerVerif.Model.Driver
/-! Line-protocol driver (`lkdriver`): one JSON request per line on stdin, one JSON answer per line
on stdout.  Imports only the Mathlib-free executable model, i.e. the very definitions the theorems
in `LekkerVerif/Properties` are about. -/
open Lean

partial def loop (h : IO.FS.Stream) : IO Unit := do
  let line ← h.getLine
  if line.isEmpty then return ()
  let out := match Json.parse line with
    | .error e => Json.mkObj [("err", Json.str ("json: " ++ e))]
    | .ok j => Driver.dispatch j
  IO.println (Json.compress out)
  (← IO.getStdout).flush
  loop h

def main : IO Unit := do loop (← IO.getStdin)
