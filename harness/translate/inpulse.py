"""Translator (T): InPulse export followed by import  ->  Generated/InPulse.lean

The export side (`SolvedModel._build_metadata`, `_build_data`, hence `get_full_data`) and the import side
(`Model_from_InPulse.__init__`, `_process_file`, the pin / column maps, the mode mapping, `create_S`) of the *current* source are
executed on a solved model whose matrix stack is an array of complex symbols `S k i j` (two sweep points `wl = 1, 2`, three pins
with modes at permuted matrix rows).  The two text layers and scipy are replaced by what they are assumed to be (assumptions
A-yaml, A-csv, A-interp of the harness, monitored on the real libraries by the round trips of `props/c14.py`): `yaml.safe_load`
returns the metadata dictionary that was built, `pd.read_csv` returns the data frame that was built, and `interp1d` is the
piecewise-linear interpolant through the given nodes.  Every coefficient of the re-imported model - at both exported points and at
the midpoint, without and with a mode mapping - is an expression tree in the symbols, printed as a Mathlib term; `C14_src_*`
identify them with the exported coefficients.
"""
from __future__ import annotations

import copy
import os
import sys
import tempfile

from .symtrace import E, Unsupported, _num_to_E
from .blocks import _model_module
from .readout import NPObj

K = 2
WL = [1.0, 2.0]
PINS = [("p", "TE", 1), ("p", "TM", 2), ("q", "TE", 0)]          # (basename, mode, matrix row)
MODE_MAP = {"TE": "", "TM": "X"}                                 # load-time mapping: TE -> no mode, TM -> X


class NPObj2(NPObj):
    """as NPObj, and pandas Series of symbols are treated like object arrays"""

    def _ew(self, f, x):
        if hasattr(x, "values") and getattr(getattr(x, "values"), "dtype", None) == object:
            x = x.values
        return super()._ew(f, x)


class Interp1:
    """`interp1d(x, y)`: the piecewise-linear interpolant through the nodes (assumption A-interp)"""

    def __init__(self, x, y, **kw):
        if kw:
            raise Unsupported(f"UNSUPPORTED interp1d options {sorted(kw)}")
        self.x = [float(v) for v in list(x)]
        self.y = list(y)
        if len(self.x) != len(self.y) or sorted(self.x) != self.x:
            raise Unsupported("UNSUPPORTED interp1d nodes (unsorted or of different length)")

    def __call__(self, v):
        v = float(v)
        for k, xk in enumerate(self.x):
            if v == xk:
                return self.y[k]
        for k in range(len(self.x) - 1):
            if self.x[k] < v < self.x[k + 1]:
                t = (v - self.x[k]) / (self.x[k + 1] - self.x[k])
                return self.y[k] + _num_to_E(t) * (self.y[k + 1] - self.y[k])
        raise ValueError("outside the interpolation range")


def trace(repo):
    M = _model_module(repo)
    import numpy as np
    saved = {k: getattr(M, k) for k in ("np", "yaml", "pd", "interp1d", "LinearNDInterpolator")}
    import logging
    lg = logging.getLogger("lekkersim")
    lvl = lg.level
    lg.setLevel(logging.CRITICAL)
    tmp = tempfile.NamedTemporaryFile("w", suffix=".txt", delete=False)
    tmp.write("metadata---data")
    tmp.close()
    out = {}
    try:
        M.np = NPObj2(saved["np"])
        try:
            S = np.empty((K, 3, 3), dtype=object)
            for k in range(K):
                for i in range(3):
                    for j in range(3):
                        S[k, i, j] = E.csym(f"(S {k} {i} {j})")
            pin_dic = {M.Pin(b, m): i for b, m, i in PINS}
            sm = M.SolvedModel(pin_dic=pin_dic, param_dic={"wl": np.array(WL)}, Smatrix=S)
            meta = sm._build_metadata(units={"wl": "um"})
            data = sm._build_data()

            class Yaml:
                @staticmethod
                def safe_load(text):
                    return copy.deepcopy(meta)

            class Pd:
                def __getattr__(self, name):
                    return getattr(saved["pd"], name)

                @staticmethod
                def read_csv(*a, **kw):
                    return data.copy()

            def no_nd(*a, **kw):
                raise Unsupported("UNSUPPORTED LinearNDInterpolator in a one-parameter trace")
            M.yaml, M.pd, M.interp1d, M.LinearNDInterpolator = Yaml, Pd(), Interp1, no_nd
            for label, mm in (("plain", None), ("mapped", dict(MODE_MAP))):
                back = M.Model_from_InPulse(tmp.name, mode_mapping=mm)
                res = {}
                for tag, wl in (("n0", WL[0]), ("n1", WL[1]), ("mid", 0.5 * (WL[0] + WL[1]))):
                    back.param_dic = {"wl": wl}
                    X = back.create_S()
                    entries = {}
                    for a, (ba, ma, _) in enumerate(PINS):
                        for b, (bb, mb, _) in enumerate(PINS):
                            if mm is None:
                                pa, pb = M.Pin(ba, ma), M.Pin(bb, mb)
                            else:
                                if ma not in mm or mb not in mm:
                                    continue
                                pa = M.Pin(ba, None if mm[ma] == "" else mm[ma])
                                pb = M.Pin(bb, None if mm[mb] == "" else mm[mb])
                            if pa not in back.pin_dic or pb not in back.pin_dic:
                                raise Unsupported(f"UNSUPPORTED re-imported model lacks pin {pa} / {pb}")
                            entries[(a, b)] = X[back.pin_dic[pa], back.pin_dic[pb]]
                    res[tag] = entries
                out[label] = (res, sorted((p.name, i) for p, i in back.pin_dic.items()))
        except Unsupported:
            raise
        except Exception as e:
            raise Unsupported(f"UNSUPPORTED InPulse round trip on symbolic input: {type(e).__name__}: {e}")
    finally:
        for k, v in saved.items():
            setattr(M, k, v)
        lg.setLevel(lvl)
        os.unlink(tmp.name)
    return out


def generate(repo: str) -> str:
    tr = trace(repo)
    out = ["-- GENERATED on every run by harness/translate/inpulse.py (symbolic execution of the InPulse export and import of",
           "-- /repo/lekkersim/model.py, text layers and scipy replaced by what they are assumed to be) — do not edit.",
           "import Mathlib.Analysis.SpecialFunctions.Complex.Arg",
           "import Mathlib.Analysis.SpecialFunctions.Pow.Real",
           "import Mathlib.Analysis.SpecialFunctions.Exp",
           "import Mathlib.Analysis.Complex.Norm",
           "import Mathlib.Data.Fin.VecNotation", "", "namespace Generated.InPulse", "",
           "/-! traced instance: sweep `wl = 1, 2`; pins `p_TE, p_TM, q_TE` at matrix rows `1, 2, 0` of the exported model; `S k i j` is",
           "the entry `S[k, i, j]` of its stack.  `imported* a b` is the coefficient of the re-imported model between the pins that",
           "correspond to the exported pins number `a` and `b` (same order as above); with the mode mapping `TE -> (none), TM -> X` all",
           "three pins are kept and renamed. -/", "",
           "variable (S : Fin 2 → Fin 3 → Fin 3 → ℂ)", ""]
    for label, (res, pins) in tr.items():
        for tag, entries in res.items():
            if len(entries) != 9:
                raise Unsupported(f"UNSUPPORTED {label}/{tag}: {len(entries)} of 9 coefficients found")
            rows = []
            for a in range(3):
                rows.append("![" + ", ".join(_num_to_E(entries[(a, b)])._lc() for b in range(3)) + "]")
            out += [f"noncomputable def {label}_{tag} : Fin 3 → Fin 3 → ℂ :=", "  ![" + ",\n    ".join(rows) + "]", ""]
        q = lambda s: '"' + s + '"'
        out += [f"/-- pin name -> matrix row of the re-imported model ({label}) -/",
                f"def {label}_pins : List (String × Nat) := [" + ", ".join(f"({q(n)}, {i})" for n, i in pins) + "]", ""]
    out += ["end Generated.InPulse", ""]
    return "\n".join(out)


if __name__ == "__main__":
    print(generate(sys.argv[1] if len(sys.argv) > 1 else "/repo"))
