"""Translator (T): finite facts extracted syntactically from /repo -> Generated/Tables.lean

* with-stack: what `Solver.__enter__` / `Solver.__exit__` do to `sol_list`, and which stack element every
  module-level helper dereferences (C17);
* per block class: whether `__init__` *calls* `update_pins()`, whether `create_S` stores into a persistent
  `self.S` buffer without rebinding it (C04/C09), format specs used by `__str__` (C09).
"""
from __future__ import annotations

import ast
import sys


class Unsupported(Exception):
    pass


HELPERS = [
    ("lekkersim/sol.py", None, "putpin"), ("lekkersim/sol.py", None, "connect"), ("lekkersim/sol.py", None, "connect_all"),
    ("lekkersim/sol.py", None, "add_param"), ("lekkersim/sol.py", None, "set_default_params"),
    ("lekkersim/sol.py", None, "update_default_params"), ("lekkersim/sol.py", None, "raise_pins"),
    ("lekkersim/sol.py", None, "solve"), ("lekkersim/sol.py", None, "add_structure_to_monitors"),
    ("lekkersim/sol.py", "Solver", "put"), ("lekkersim/model.py", "Model", "put"),
    ("lekkersim/pin.py", "Pin", "put"), ("lekkersim/structure.py", "Structure", "raise_pins"),
]

DOC_BLOCKS = ["Waveguide", "UserWaveguide", "BeamSplitter", "Splitter1x2", "PhaseShifter", "PushPullPhaseShifter",
              "PolRot", "Attenuator", "LinearAttenuator", "Mirror", "PerfectMirror", "TH_PhaseShifter"]
SWEEP_BLOCKS = DOC_BLOCKS + ["Splitter1x2Gen", "FPR_NxM", "Ring", "FPR", "FPRGaussian", "CWA", "Model_from_InPulse"]


def _find(tree, cls, fn):
    body = tree.body
    if cls is not None:
        c = [n for n in body if isinstance(n, ast.ClassDef) and n.name == cls]
        if not c:
            return None
        body = c[0].body
    f = [n for n in body if isinstance(n, ast.FunctionDef) and n.name == fn]
    return f[0] if f else None


def _is_sol_list(e):
    return (isinstance(e, ast.Name) and e.id == "sol_list") or (isinstance(e, ast.Attribute) and e.attr == "sol_list")


def helper_target(fn):
    """'top' if every use of sol_list in the function is `sol_list[-1]`; 'none' if unused; else 'other'"""
    kinds = set()
    for node in ast.walk(fn):
        if isinstance(node, ast.Subscript) and _is_sol_list(node.value):
            idx = ast.unparse(node.slice)
            kinds.add("top" if idx.replace(" ", "") == "-1" else "other")
        elif _is_sol_list(node) and not isinstance(getattr(node, "ctx", None), ast.Load):
            kinds.add("other")
    # any bare use of sol_list that is not inside a subscript?
    subs = {id(n.value) for n in ast.walk(fn) if isinstance(n, ast.Subscript)}
    for node in ast.walk(fn):
        if _is_sol_list(node) and id(node) not in subs:
            kinds.add("other")
    if not kinds:
        return "none"
    return "top" if kinds == {"top"} else "other"


def enter_kind(fn):
    """push | nop | other"""
    stmts = [s for s in fn.body if not (isinstance(s, ast.Expr) and isinstance(s.value, ast.Constant))]
    pushes = [s for s in stmts if isinstance(s, ast.Expr) and isinstance(s.value, ast.Call)
              and ast.unparse(s.value.func).endswith("sol_list.append") and ast.unparse(s.value.args[0]) == "self"]
    others = [s for s in stmts if s not in pushes and not isinstance(s, ast.Return)]
    if len(pushes) == 1 and not others:
        return "push"
    if not pushes and not others:
        return "nop"
    return "other"


def exit_kind(fn):
    """popAlways | popOnNormal | popOnRaise | nop | other"""
    stmts = [s for s in fn.body if not (isinstance(s, ast.Expr) and isinstance(s.value, ast.Constant))]

    def is_pop(s):
        return (isinstance(s, ast.Expr) and isinstance(s.value, ast.Call)
                and ast.unparse(s.value.func).endswith("sol_list.pop") and not s.value.args)
    if len(stmts) == 1 and is_pop(stmts[0]):
        return "popAlways"
    if not stmts:
        return "nop"
    if len(stmts) == 1 and isinstance(stmts[0], ast.If) and not stmts[0].orelse and len(stmts[0].body) == 1 and is_pop(stmts[0].body[0]):
        t = ast.unparse(stmts[0].test).replace(" ", "")
        if t in ("exc_typeisNone", "exc_valisNone"):
            return "popOnNormal"
        if t in ("exc_typeisnotNone", "exc_valisnotNone"):
            return "popOnRaise"
    return "other"


def calls_update_pins(init):
    for node in ast.walk(init):
        if isinstance(node, ast.Call):
            f = ast.unparse(node.func)
            if f == "self.update_pins":
                return True
            if f in ("super().__init__", "Model.__init__"):
                return True          # Model.__init__ calls update_pins itself
    return False


def buffer_kind(cls):
    """how create_S produces its result: 'fresh' (new array each call or rebinding self.S to a new array),
    'buffer' (stores into a persistent self.S without rebinding it), 'fixed' (inherits Model.create_S)"""
    fn = [n for n in cls.body if isinstance(n, ast.FunctionDef) and n.name == "create_S"]
    if not fn:
        return "fixed"
    fn = fn[0]
    rebinds = False
    stores = False
    returns_self_S = False
    for node in ast.walk(fn):
        if isinstance(node, ast.Assign):
            for t in node.targets:
                if isinstance(t, ast.Attribute) and ast.unparse(t) == "self.S":
                    rebinds = True
                if isinstance(t, ast.Subscript) and ast.unparse(t.value) == "self.S":
                    stores = True
        if isinstance(node, ast.Return) and node.value is not None and ast.unparse(node.value) == "self.S":
            returns_self_S = True
    if returns_self_S and stores and not rebinds:
        return "buffer"
    if returns_self_S and not stores and not rebinds:
        return "fixed"
    return "fresh"


def str_specs(cls):
    """format specs applied to constructor-argument attributes in __str__ : [(attr, spec)]"""
    fn = [n for n in cls.body if isinstance(n, ast.FunctionDef) and n.name == "__str__"]
    out = []
    if not fn:
        return out
    for node in ast.walk(fn[0]):
        if isinstance(node, ast.FormattedValue) and node.format_spec is not None:
            spec = "".join(v.value for v in node.format_spec.values if isinstance(v, ast.Constant))
            v = node.value
            is_float = isinstance(v, ast.Call) and ast.unparse(v.func) == "float"
            out.append((ast.unparse(v), spec, is_float))
    return out


def lean_str(s):
    return '"' + s.replace("\\", "\\\\").replace('"', '\\"') + '"'


def generate(repo: str) -> str:
    trees = {}

    def tree(path):
        if path not in trees:
            trees[path] = ast.parse(open(f"{repo}/{path}").read())
        return trees[path]

    sol = tree("lekkersim/sol.py")
    ent = _find(sol, "Solver", "__enter__")
    ext = _find(sol, "Solver", "__exit__")
    if ent is None or ext is None:
        raise Unsupported("UNSUPPORTED lekkersim/sol.py: Solver.__enter__/__exit__ not found")
    syn_ek, syn_xk = enter_kind(ent), exit_kind(ext)
    syn_helpers = []
    for path, cls, fn in HELPERS:
        f = _find(tree(path), cls, fn)
        name = (cls + "." if cls else "") + fn
        syn_helpers.append((name, "missing" if f is None else helper_target(f)))
    # the facts themselves: observed by executing the with-protocol and every helper on a re-entrant stack (probes.py)
    from . import probes as _pr
    (ek, xk), helpers, iface = _pr.run_stack(repo)
    missing = [n for n, k in syn_helpers if k == "missing"]
    helpers = list(helpers) + [(n, "missing") for n in missing]
    model = tree("lekkersim/model.py")
    classes = {n.name: n for n in model.body if isinstance(n, ast.ClassDef)}
    # the documented model list: the "Available Models" autosummary of Docs/api_summary.rst, restricted to classes of model.py
    documented = []
    try:
        lines = open(f"{repo}/Docs/api_summary.rst").read().splitlines()
        k = next(i for i, l in enumerate(lines) if "Available Models" in l)
        for l in lines[k + 1:]:
            t = l.strip()
            if t.startswith(".. autosummary") or not t:
                if documented and not t and False:
                    break
                continue
            if not l.startswith("    ") :
                break
            if t in classes:
                documented.append(t)
    except (OSError, StopIteration):
        raise Unsupported("UNSUPPORTED Docs/api_summary.rst: documented model list not found")
    if not documented:
        raise Unsupported("UNSUPPORTED Docs/api_summary.rst: empty documented model list")
    blocks = []
    for b in SWEEP_BLOCKS:
        c = classes.get(b)
        if c is None:
            blocks.append((b, False, "missing", []))
            continue
        init = [n for n in c.body if isinstance(n, ast.FunctionDef) and n.name == "__init__"]
        cup = calls_update_pins(init[0]) if init else True
        if b in iface:
            cup = iface[b][0]            # observed on instances (probes.block_interface); syntactic only for undocumented classes
        blocks.append((b, cup, buffer_kind(c), str_specs(c)))
    # does Model.solve copy the matrix it collects?  (S_list.append(np.array(...)) / .copy())
    ms = _find(model, "Model", "solve")
    copies = False
    if ms is not None:
        for node in ast.walk(ms):
            if isinstance(node, ast.Call) and ast.unparse(node.func).endswith("S_list.append") and node.args:
                a = ast.unparse(node.args[0])
                if a.startswith(("np.array(", "np.copy(", "copy(", "deepcopy(")) or a.endswith(".copy()"):
                    copies = True
    out = ["-- GENERATED on every run by harness/translate/tables.py from /repo/lekkersim/*.py — do not edit.",
           "namespace Generated", "",
           "/-- what `Solver.__enter__` does to the stack of active solvers (observed on a re-entrant stack) -/",
           "inductive EnterKind | push | nop | other deriving DecidableEq, Repr",
           "/-- what `Solver.__exit__` does -/",
           "inductive ExitKind | popAlways | popOnNormal | popOnRaise | nop | other deriving DecidableEq, Repr",
           f"def enterKind : EnterKind := .{ek}",
           f"def exitKind : ExitKind := .{xk}", "",
           "/-- helper kinds and the solver of a four-deep re-entrant stack each acts on, observed through the state it changes (`top` = the innermost active solver and no other) -/",
           "def helpers : List (String × String) := ["]
    out.append(",\n".join(f"  ({lean_str(n)}, {lean_str(k)})" for n, k in helpers) + "]")
    out += ["", "/-- per block class: (name, the name -> Pin table is built at construction [observed on instances of the documented classes], how `create_S` produces its matrix) -/",
            "def blocks : List (String × Bool × String) := ["]
    out.append(",\n".join(f"  ({lean_str(b)}, {'true' if cup else 'false'}, {lean_str(bk)})" for b, cup, bk, _ in blocks) + "]")
    out += ["", "/-- documented basic blocks (C09) -/",
            "def docBlocks : List String := [" + ", ".join(lean_str(b) for b in documented) + "]", "",
            "/-- the blocks whose closed form the property states -/",
            "def closedFormBlocks : List String := [" + ", ".join(lean_str(b) for b in DOC_BLOCKS) + "]", "",
            "/-- `Model.solve` collects a copy of what `create_S` returns (established by sweeping a probe block that rebuilds its",
            "matrix in one persistent buffer) -/",
            "def modelSolveCopies : Bool := MODEL_SOLVE_COPIES", "",
            "/-- per documented block class: `str()` works whatever numeric type (int, float, numpy.float64, numpy.int64) the",
            "constructor arguments have (observed on instances) -/",
            "def strOk : List (String × Bool) := ["]
    out.append(",\n".join(f"  ({lean_str(b)}, {'true' if v[1] else 'false'})" for b, v in sorted(iface.items())) + "]")
    # read-out accessor formulas (C15): normalised source text of the defining expressions
    acc = []

    def ret_expr(cls, fn):
        f = _find(model, cls, fn)
        if f is None:
            return "missing"
        rets = [n for n in ast.walk(f) if isinstance(n, ast.Return) and n.value is not None]
        return ast.unparse(rets[-1].value) if rets else "missing"

    def assigns_to_key(cls, fn, dname):
        f = _find(model, cls, fn)
        res = []
        if f is None:
            return res
        for n in ast.walk(f):
            if isinstance(n, ast.Assign) and len(n.targets) == 1 and isinstance(n.targets[0], ast.Subscript) \
                    and ast.unparse(n.targets[0].value) == dname and isinstance(n.targets[0].slice, ast.Constant):
                res.append((n.targets[0].slice.value, ast.unparse(n.value)))
        return res
    acc.append(("get_T", ret_expr("Model", "get_T")))
    acc.append(("get_PH", ret_expr("Model", "get_PH")))
    acc.append(("get_A", ret_expr("Model", "get_A")))
    for k, v in assigns_to_key("SolvedModel", "get_data", "params"):
        if isinstance(k, str):
            acc.append((f"get_data.{k}", v))
    go = _find(model, "Model", "get_output")
    if go is not None:
        for n in ast.walk(go):
            if isinstance(n, ast.Assign) and len(n.targets) == 1 and ast.unparse(n.targets[0]) in ("d", "out_dic[pin.name]", "u[i]"):
                acc.append((f"get_output.{ast.unparse(n.targets[0])}", ast.unparse(n.value)))
    gf = _find(model, "SolvedModel", "get_full_output")
    if gf is not None:
        for n in ast.walk(gf):
            if isinstance(n, ast.Assign) and len(n.targets) == 1 and ast.unparse(n.targets[0]) in ("output", "params[pin.name]", "u[i]"):
                acc.append((f"get_full_output.{ast.unparse(n.targets[0])}", ast.unparse(n.value)))
    gd = _find(model, "SolvedModel", "get_full_data")
    if gd is not None:
        for n in ast.walk(gd):
            if isinstance(n, ast.Assign) and len(n.targets) == 1 and ast.unparse(n.targets[0]) == "params[p1, p2]":
                acc.append(("get_full_data.params[p1, p2]", ast.unparse(n.value)))
    # source text of the matrix-building statements of every documented block (C09): normalised by ast.unparse
    def build_text(cname):
        c = classes.get(cname)
        if c is None:
            return "missing"
        fns = {n.name: n for n in c.body if isinstance(n, ast.FunctionDef)}
        fn = fns.get("create_S") or fns.get("__init__")
        if fn is None:
            return "missing"
        keep = []
        for st in fn.body:
            if isinstance(st, ast.Expr) and isinstance(st.value, ast.Constant):
                continue
            txt = ast.unparse(st)
            if any(tok in txt for tok in ("self.S", "np.", "S[", "S1", "S2", "diag_blocks", "return")):
                if txt.startswith("self.pin_dic") or txt.startswith("self.default_params") or txt.startswith("self.update_pins"):
                    continue
                keep.append(" ".join(txt.split()))
        return " ; ".join(keep)
    def build_text_init(cname):
        c = classes.get(cname)
        fns = {n.name: n for n in c.body if isinstance(n, ast.FunctionDef)} if c is not None else {}
        fn = fns.get("__init__")
        if fn is None:
            return "missing"
        keep = []
        for node in ast.walk(fn):
            if isinstance(node, ast.Assign):
                txt = " ".join(ast.unparse(node).split())
                if ("np." in txt or "self.S" in txt) and not txt.startswith(("self.pin_dic", "self.default_params")):
                    keep.append(txt)
        return " ; ".join(keep)
    block_src = [(b, build_text(b)) for b in DOC_BLOCKS] + [("PolRot.__init__", build_text_init("PolRot"))]
    # purity facts (C06)
    def src_tree(path):
        return tree(path)
    solve_fn = _find(sol, "Solver", "solve")
    resets_params = resets_structs = False
    if solve_fn is not None:
        seen_update = False
        for stmt in solve_fn.body:
            txt = ast.unparse(stmt)
            if "self.update_params(" in txt:
                seen_update = True
            if not seen_update:
                if isinstance(stmt, ast.Assign) and txt.replace(" ", "") == "self.param_dic={}":
                    resets_params = True
                if isinstance(stmt, ast.For) and "self.structures" in ast.unparse(stmt.iter) and ".reset()" in txt:
                    resets_structs = True
    struct = tree("lekkersim/structure.py")
    split_fn = _find(struct, "Structure", "split_in_out")
    resets_part = False
    if split_fn is not None:
        got_in = got_out = False
        for stmt in split_fn.body:
            if isinstance(stmt, ast.For):
                break
            txt = ast.unparse(stmt).replace(" ", "")
            got_in = got_in or txt == "self.in_pins={}"
            got_out = got_out or txt == "self.out_pins={}"
        resets_part = got_in and got_out
    inter = _find(struct, "Structure", "intermediate")
    closure_bound = False
    if inter is not None:
        inner = [n for n in ast.walk(inter) if isinstance(n, ast.FunctionDef) and n.name == "solve_inter"]
        if inner:
            arg_names = {a.arg for a in inter.args.args}
            uses = [n for n in ast.walk(inner[0]) if isinstance(n, ast.Attribute) and isinstance(n.value, ast.Name) and n.value.id in arg_names]
            closure_bound = not uses
    # the facts themselves come from instrumented execution (translate/probes.py); the syntactic recognisers above are kept
    # as a cross-reference only (they break on harmless rewrites such as `dict()` for `{}`)
    from . import probes
    pr = probes.run_all(repo)
    syn = {"solveResetsParams": resets_params, "solveResetsStructures": resets_structs, "splitResetsPartition": resets_part,
           "monitorClosureBound": closure_bound, "modelSolveCopies": copies}
    out += ["", "/-- purity facts (C06), each established by executing the current code on a probe circuit with a marker planted in the",
            "working state concerned: `Solver.solve` is not influenced by what an earlier call left in its working dictionary / on",
            "the structures; `split_in_out` starts from an empty partition; the monitor read-out of a returned result does not",
            "follow later solves.  -/"]
    for k in ("solveResetsParams", "solveResetsStructures", "splitResetsPartition", "monitorClosureBound"):
        out.append(f"def {k} : Bool := {'true' if pr[k][0] else 'false'}")
    out = [l.replace("MODEL_SOLVE_COPIES", f"{'true' if pr['modelSolveCopies'][0] else 'false'}") for l in out]
    out += ["", "end Generated", ""]
    generate.info = {"with_protocol_syntactic": [syn_ek, syn_xk], "helpers_syntactic": dict(syn_helpers), "probes": {k: {"holds": v[0], "error": v[1], "syntactic_recogniser": syn[k]} for k, v in pr.items()}}
    return "\n".join(out)


if __name__ == "__main__":
    print(generate(sys.argv[1] if len(sys.argv) > 1 else "/repo"))
