"""Symbolic tracing of numpy-style scalar / small-matrix code.

`E` is an immutable expression tree over real symbols; `SymMat` a dense 2-D array of `E`; `NP` the stand-in for the
`numpy` module that the traced code sees.  Anything the stand-in does not implement, and every use of a symbolic
value as a truth value / number / index (data-dependent control flow), raises `Unsupported`: the translator never
guesses.  `E.lean()` prints a Mathlib term (reals stay in ℝ and are cast into ℂ where they meet complex values),
`E.eval(env)` evaluates the same tree numerically (used to validate the tracer against the running code).
"""
from __future__ import annotations

import cmath
import math
from fractions import Fraction


class Unsupported(Exception):
    pass


def _num_to_E(x):
    if isinstance(x, E):
        return x
    if isinstance(x, bool):
        raise Unsupported(f"UNSUPPORTED boolean used as a number: {x!r}")
    if isinstance(x, int):
        return E("rat", (Fraction(x),), True)
    if isinstance(x, float):
        if x != x or x in (float("inf"), float("-inf")):
            raise Unsupported(f"UNSUPPORTED non-finite constant {x!r}")
        return E("rat", (Fraction(repr(x)),), True)
    if isinstance(x, complex):
        re, im = _num_to_E(x.real), _num_to_E(x.imag)
        if x.imag == 0:
            return re
        imI = E("mul", (im, E("I", (), False)), False)
        if x.real == 0:
            return imI
        return E("add", (re, imI), False)
    # numpy scalars that leak in from untraced helpers
    try:
        import numpy as _np
        if isinstance(x, _np.generic):
            return _num_to_E(x.item())
    except ImportError:  # pragma: no cover
        pass
    raise Unsupported(f"UNSUPPORTED value of type {type(x).__name__} used as a number")


class E:
    """symbolic scalar; `real` says whether the value is real for real symbol values"""
    __slots__ = ("op", "args", "real")
    __array_priority__ = 1000
    __array_ufunc__ = None

    def __init__(self, op, args=(), real=True):
        object.__setattr__(self, "op", op)
        object.__setattr__(self, "args", tuple(args))
        object.__setattr__(self, "real", real)

    def __setattr__(self, *a):
        raise AttributeError("E is immutable")

    def __deepcopy__(self, memo):
        return self

    def __copy__(self):
        return self

    @staticmethod
    def sym(name):
        return E("sym", (name,), True)

    @staticmethod
    def csym(name):
        """a complex symbol; `name` is printed verbatim as a Lean term of type ℂ"""
        return E("csym", (name,), False)

    # methods numpy's ufuncs look up on the elements of object arrays
    def __abs__(self):
        return E("abs", (self,), True)

    def log10(self):
        if not self.real:
            raise Unsupported("UNSUPPORTED log10 of a complex value")
        return E("log10", (self,), True)

    def exp(self):
        return E("exp", (self,), self.real)

    def sqrt(self):
        if not self.real:
            raise Unsupported("UNSUPPORTED sqrt of a complex value")
        return E("sqrt", (self,), True)

    def cos(self):
        return E("cos", (self,), self.real)

    def sin(self):
        return E("sin", (self,), self.real)

    def angle(self):
        return E("angle", (self,), True)

    # ---- data-dependent use is never guessed -----------------------------------------------------------------
    def _no(self, what):
        raise Unsupported(f"UNSUPPORTED data-dependent {what} of a symbolic value ({self.lean()})")

    def __bool__(self):
        self._no("truth value")

    def __float__(self):
        self._no("float()")

    def __complex__(self):
        self._no("complex()")

    def __int__(self):
        self._no("int()")

    def __index__(self):
        self._no("index")

    def __lt__(self, o):
        self._no("comparison")

    __le__ = __gt__ = __ge__ = __lt__

    def __eq__(self, o):
        if isinstance(o, E):
            return self is o or (self.op == o.op and self.args == o.args)
        self._no("comparison")

    def __ne__(self, o):
        return not self.__eq__(o)

    def __hash__(self):
        return hash((self.op, self.args))

    def __format__(self, spec):
        self._no("format")

    # ---- arithmetic -----------------------------------------------------------------------------------------
    def _bin(self, op, o, swap=False):
        if isinstance(o, SymMat):
            return NotImplemented
        o = _num_to_E(o)
        a, b = (o, self) if swap else (self, o)
        # exact field laws only: x*0 = 0, x*1 = x, x+0 = x, x-0 = x (a literal 0.0 / 1.0 in the source, or an identity block)
        za, zb = a.op == "rat" and a.args[0] == 0, b.op == "rat" and b.args[0] == 0
        oa, ob = a.op == "rat" and a.args[0] == 1, b.op == "rat" and b.args[0] == 1
        if op == "mul":
            if za or zb:
                return E("rat", (Fraction(0),), True)
            if oa:
                return b
            if ob:
                return a
        elif op == "add":
            if za:
                return b
            if zb:
                return a
        elif op == "sub" and zb:
            return a
        elif op == "div" and ob:
            return a
        return E(op, (a, b), a.real and b.real)

    def __add__(self, o):
        return self._bin("add", o)

    def __radd__(self, o):
        return self._bin("add", o, True)

    def __sub__(self, o):
        return self._bin("sub", o)

    def __rsub__(self, o):
        return self._bin("sub", o, True)

    def __mul__(self, o):
        return self._bin("mul", o)

    def __rmul__(self, o):
        return self._bin("mul", o, True)

    def __truediv__(self, o):
        return self._bin("div", o)

    def __rtruediv__(self, o):
        return self._bin("div", o, True)

    def __neg__(self):
        return E("neg", (self,), self.real)

    def __pos__(self):
        return self

    def __pow__(self, o):
        return _pow(self, o)

    def __rpow__(self, o):
        return _pow(_num_to_E(o), self)

    def conjugate(self):
        return self if self.real else E("conj", (self,), False)

    conj = conjugate

    # ---- numeric evaluation ---------------------------------------------------------------------------------
    def eval(self, env):
        op, a = self.op, self.args
        if op in ("sym", "csym"):
            return env[a[0]]
        if op == "abs":
            return abs(a[0].eval(env))
        if op == "angle":
            return cmath.phase(a[0].eval(env))
        if op == "log10":
            return math.log10(a[0].eval(env))
        if op == "rat":
            return float(a[0])
        if op == "I":
            return 1j
        if op == "pi":
            return math.pi
        if op == "neg":
            return -a[0].eval(env)
        if op == "conj":
            return complex(a[0].eval(env)).conjugate()
        if op in ("add", "sub", "mul", "div"):
            x, y = a[0].eval(env), a[1].eval(env)
            return x + y if op == "add" else x - y if op == "sub" else x * y if op == "mul" else x / y
        if op == "npow":
            return a[0].eval(env) ** a[1]
        if op == "rpow":
            return a[0].eval(env) ** a[1].eval(env)
        x = a[0].eval(env)
        if self.real:
            x = float(x.real if isinstance(x, complex) else x)
            return {"exp": math.exp, "sqrt": math.sqrt, "cos": math.cos, "sin": math.sin}[op](x)
        return {"exp": cmath.exp, "sqrt": cmath.sqrt, "cos": cmath.cos, "sin": cmath.sin}[op](x)

    # ---- Lean printing --------------------------------------------------------------------------------------
    def lean(self):
        return self._lc() if not self.real else f"(({self._lr()} : ℝ) : ℂ)"

    def _lr(self):
        """term of type ℝ (only for real nodes)"""
        op, a = self.op, self.args
        if op == "sym":
            return a[0]
        if op == "rat":
            q = a[0]
            if q.denominator == 1:
                return f"({q.numerator} : ℝ)" if q >= 0 else f"(-{-q.numerator} : ℝ)"
            return f"({q.numerator} / {q.denominator} : ℝ)" if q >= 0 else f"(-({-q.numerator} / {q.denominator}) : ℝ)"
        if op == "pi":
            return "Real.pi"
        if op == "neg":
            return f"(-{a[0]._lr()})"
        if op in ("add", "sub", "mul", "div"):
            s = {"add": "+", "sub": "-", "mul": "*", "div": "/"}[op]
            return f"({a[0]._lr()} {s} {a[1]._lr()})"
        if op == "npow":
            return f"({a[0]._lr()} ^ ({a[1]} : ℕ))"
        if op == "rpow":
            return f"({a[0]._lr()} ^ ({a[1]._lr()} : ℝ))"
        if op == "abs":
            return f"|{a[0]._lr()}|" if a[0].real else f"‖{a[0]._lc()}‖"
        if op == "angle":
            return f"(Complex.arg {a[0]._lc()})"
        if op == "log10":
            return f"(Real.logb 10 {a[0]._lr()})"
        fn = {"exp": "Real.exp", "sqrt": "Real.sqrt", "cos": "Real.cos", "sin": "Real.sin"}[op]
        return f"({fn} {a[0]._lr()})"

    def _lc(self):
        """term of type ℂ"""
        if self.real:
            return f"(({self._lr()} : ℝ) : ℂ)"
        op, a = self.op, self.args
        if op == "I":
            return "Complex.I"
        if op == "csym":
            return a[0]
        if op == "neg":
            return f"(-{a[0]._lc()})"
        if op == "conj":
            return f"((starRingEnd ℂ) {a[0]._lc()})"
        if op in ("add", "sub", "mul", "div"):
            s = {"add": "+", "sub": "-", "mul": "*", "div": "/"}[op]
            return f"({a[0]._lc()} {s} {a[1]._lc()})"
        if op == "npow":
            return f"({a[0]._lc()} ^ ({a[1]} : ℕ))"
        fn = {"exp": "Complex.exp", "cos": "Complex.cos", "sin": "Complex.sin"}.get(op)
        if fn is None:
            raise Unsupported(f"UNSUPPORTED {op} of a complex value")
        return f"({fn} {a[0]._lc()})"

    def symbols(self, acc=None):
        acc = set() if acc is None else acc
        if self.op in ("sym", "csym"):
            acc.add(self.args[0])
        else:
            for x in self.args:
                if isinstance(x, E):
                    x.symbols(acc)
        return acc

    def __repr__(self):
        return f"E<{self.lean()}>"


def _pow(base, expo):
    base = _num_to_E(base)
    if isinstance(expo, (int, float)) and not isinstance(expo, bool) and float(expo) == int(expo) and int(expo) >= 0:
        return E("npow", (base, int(expo)), base.real)
    expo = _num_to_E(expo)
    if expo.op == "rat" and expo.args[0] == Fraction(1, 2) and base.real:
        return E("sqrt", (base,), True)          # x ** 0.5  is  sqrt x  (documented rule)
    if base.real and expo.real:
        return E("rpow", (base, expo), True)
    raise Unsupported("UNSUPPORTED power with a complex base or exponent")


def _fn1(op):
    def f(x, *args, **kw):
        if args or kw:
            raise Unsupported(f"UNSUPPORTED np.{op} with extra arguments")
        if isinstance(x, SymMat):
            return x.map(lambda e: f(e))
        x = _num_to_E(x)
        if op == "sqrt" and not x.real:
            raise Unsupported("UNSUPPORTED sqrt of a complex value")
        return E(op, (x,), x.real)
    return f


class SymMat:
    """dense 2-D array of E with the few numpy behaviours the block code uses"""
    __array_priority__ = 2000
    __array_ufunc__ = None

    def __init__(self, rows):
        self.rows = [[_num_to_E(x) for x in r] for r in rows]
        if len({len(r) for r in self.rows}) > 1:
            raise Unsupported("UNSUPPORTED ragged array")

    @property
    def shape(self):
        return (len(self.rows), len(self.rows[0]) if self.rows else 0)

    @property
    def ndim(self):
        return 2

    def __len__(self):
        return len(self.rows)

    def copy(self):
        return SymMat(self.rows)

    def __deepcopy__(self, memo):
        return self.copy()

    __copy__ = copy

    def map(self, f):
        return SymMat([[f(x) for x in r] for r in self.rows])

    @property
    def T(self):
        n, m = self.shape
        return SymMat([[self.rows[i][j] for i in range(n)] for j in range(m)])

    def transpose(self):
        return self.T

    def conj(self):
        return self.map(lambda e: e.conjugate())

    conjugate = conj

    def _ix(self, k, n):
        if isinstance(k, slice):
            return list(range(*k.indices(n))), True
        if isinstance(k, bool) or not isinstance(k, int):
            raise Unsupported(f"UNSUPPORTED index {k!r}")
        if k < 0:
            k += n
        if not 0 <= k < n:
            raise IndexError("index out of range")
        return [k], False

    def _key(self, key):
        if not isinstance(key, tuple):
            key = (key, slice(None))
        if len(key) != 2:
            raise Unsupported(f"UNSUPPORTED index {key!r}")
        n, m = self.shape
        (ri, rs), (ci, cs) = self._ix(key[0], n), self._ix(key[1], m)
        return ri, rs, ci, cs

    def __getitem__(self, key):
        ri, rs, ci, cs = self._key(key)
        if not rs and not cs:
            return self.rows[ri[0]][ci[0]]
        if rs and cs:
            return SymMat([[self.rows[i][j] for j in ci] for i in ri])
        raise Unsupported("UNSUPPORTED 1-D slice of a symbolic array")

    def __setitem__(self, key, val):
        ri, rs, ci, cs = self._key(key)
        if isinstance(val, (list, tuple)):
            val = SymMat(val)
        if isinstance(val, SymMat):
            if val.shape != (len(ri), len(ci)):
                raise ValueError(f"could not broadcast input array from shape {val.shape} into shape {(len(ri), len(ci))}")
            for a, i in enumerate(ri):
                for b, j in enumerate(ci):
                    self.rows[i][j] = val.rows[a][b]
        else:
            v = _num_to_E(val)
            for i in ri:
                for j in ci:
                    self.rows[i][j] = v

    def _ew(self, o, f):
        if isinstance(o, SymMat):
            if o.shape != self.shape:
                raise Unsupported("UNSUPPORTED broadcasting between arrays of different shape")
            return SymMat([[f(x, y) for x, y in zip(r, s)] for r, s in zip(self.rows, o.rows)])
        if isinstance(o, (list, tuple)):
            return self._ew(SymMat(o), f)
        o = _num_to_E(o)
        return self.map(lambda x: f(x, o))

    def __add__(self, o):
        return self._ew(o, lambda x, y: x + y)

    def __radd__(self, o):
        return self._ew(o, lambda x, y: y + x)

    def __sub__(self, o):
        return self._ew(o, lambda x, y: x - y)

    def __rsub__(self, o):
        return self._ew(o, lambda x, y: y - x)

    def __mul__(self, o):
        return self._ew(o, lambda x, y: x * y)

    def __rmul__(self, o):
        return self._ew(o, lambda x, y: y * x)

    def __truediv__(self, o):
        return self._ew(o, lambda x, y: x / y)

    def __neg__(self):
        return self.map(lambda x: -x)

    def __matmul__(self, o):
        if not isinstance(o, SymMat) or self.shape[1] != o.shape[0]:
            raise Unsupported("UNSUPPORTED matmul operand")
        n, k = self.shape
        m = o.shape[1]
        out = []
        for i in range(n):
            row = []
            for j in range(m):
                acc = None
                for t in range(k):
                    term = self.rows[i][t] * o.rows[t][j]
                    acc = term if acc is None else acc + term
                row.append(acc if acc is not None else _num_to_E(0))
            out.append(row)
        return SymMat(out)

    def __bool__(self):
        raise Unsupported("UNSUPPORTED truth value of a symbolic array")

    def __iter__(self):
        raise Unsupported("UNSUPPORTED iteration over a symbolic array")


class _NP:
    """what the traced code sees as `np`"""
    pi = E("pi", (), True)
    complex128 = complex
    complex64 = complex
    float64 = float
    ndarray = SymMat
    exp = staticmethod(_fn1("exp"))
    sqrt = staticmethod(_fn1("sqrt"))
    cos = staticmethod(_fn1("cos"))
    sin = staticmethod(_fn1("sin"))

    @staticmethod
    def _shape(shape):
        if isinstance(shape, int):
            raise Unsupported("UNSUPPORTED 1-D array")
        shape = tuple(shape)
        if len(shape) != 2 or not all(isinstance(k, int) and not isinstance(k, bool) for k in shape):
            raise Unsupported(f"UNSUPPORTED array shape {shape!r}")
        return shape

    @staticmethod
    def zeros(shape, dtype=None):
        n, m = _NP._shape(shape)
        return SymMat([[0] * m for _ in range(n)])

    @staticmethod
    def ones(shape, dtype=None):
        n, m = _NP._shape(shape)
        return SymMat([[1] * m for _ in range(n)])

    @staticmethod
    def identity(n, dtype=None):
        if not isinstance(n, int):
            raise Unsupported("UNSUPPORTED identity size")
        return SymMat([[1 if i == j else 0 for j in range(n)] for i in range(n)])

    @staticmethod
    def eye(n, M=None, k=0, dtype=None):
        if M is not None or k != 0:
            raise Unsupported("UNSUPPORTED np.eye variant")
        return _NP.identity(n)

    @staticmethod
    def array(obj, dtype=None, copy=True):
        if isinstance(obj, SymMat):
            return obj.copy()
        if isinstance(obj, (list, tuple)) and obj and all(isinstance(r, (list, tuple)) for r in obj):
            return SymMat(obj)
        raise Unsupported("UNSUPPORTED np.array argument (only 2-D nested lists)")

    asarray = array

    @staticmethod
    def zeros_like(a, dtype=None):
        return _NP.zeros(a.shape)

    @staticmethod
    def shape(a):
        if isinstance(a, SymMat):
            return a.shape
        raise Unsupported("UNSUPPORTED np.shape argument")

    @staticmethod
    def conj(x):
        return x.conjugate() if isinstance(x, (E, SymMat)) else _num_to_E(x).conjugate()

    conjugate = conj

    @staticmethod
    def transpose(a):
        return a.T

    @staticmethod
    def matmul(a, b):
        return a @ b

    dot = matmul

    @staticmethod
    def power(a, b):
        if isinstance(a, SymMat):
            return a.map(lambda x: _pow(x, b))
        return _pow(a, b)

    @staticmethod
    def multiply(a, b):
        return a * b

    @staticmethod
    def add(a, b):
        return a + b

    @staticmethod
    def subtract(a, b):
        return a - b

    @staticmethod
    def negative(a):
        return -a

    @staticmethod
    def copy(a):
        return a.copy()

    @staticmethod
    def block(parts):
        rows = []
        for prow in parts:
            ms = [p if isinstance(p, SymMat) else _NP.array(p) for p in prow]
            h = ms[0].shape[0]
            if any(m.shape[0] != h for m in ms):
                raise Unsupported("UNSUPPORTED np.block with ragged rows")
            for i in range(h):
                rows.append([x for m in ms for x in m.rows[i]])
        return SymMat(rows)

    @staticmethod
    def full(shape, value, dtype=None):
        n, m = _NP._shape(shape)
        return SymMat([[value] * m for _ in range(n)])

    @staticmethod
    def ones_like(a, dtype=None):
        return _NP.ones(a.shape)

    @staticmethod
    def diag(v, k=0):
        if k != 0:
            raise Unsupported("UNSUPPORTED np.diag with an offset")
        if isinstance(v, SymMat):
            raise Unsupported("UNSUPPORTED np.diag of a 2-D array (1-D result)")
        v = list(v)
        return SymMat([[v[i] if i == j else 0 for j in range(len(v))] for i in range(len(v))])

    @staticmethod
    def fill_diagonal(a, val):
        for i in range(min(a.shape)):
            a[i, i] = val

    @staticmethod
    def kron(a, b):
        a = a if isinstance(a, SymMat) else _NP.array(a)
        b = b if isinstance(b, SymMat) else _NP.array(b)
        (n, m), (p, q) = a.shape, b.shape
        return SymMat([[a.rows[i // p][j // q] * b.rows[i % p][j % q] for j in range(m * q)] for i in range(n * p)])

    @staticmethod
    def concatenate(parts, axis=0):
        ms = [x if isinstance(x, SymMat) else _NP.array(x) for x in parts]
        if axis in (0, -2):
            return _NP.block([[x] for x in ms])
        if axis in (1, -1):
            return _NP.block([ms])
        raise Unsupported("UNSUPPORTED np.concatenate axis")

    @staticmethod
    def vstack(parts):
        return _NP.concatenate(parts, 0)

    @staticmethod
    def hstack(parts):
        return _NP.concatenate(parts, 1)

    def __getattr__(self, name):
        # a numpy function applied to concrete values only (shapes, counts, index arithmetic, constants) is plain execution
        import numpy as real
        f = getattr(real, name, None)
        if f is None:
            raise Unsupported(f"UNSUPPORTED numpy attribute np.{name} in traced code")
        if not callable(f) or isinstance(f, type):
            return f

        def has_sym(x):
            if isinstance(x, (E, SymMat)):
                return True
            if isinstance(x, (list, tuple)):
                return any(has_sym(y) for y in x)
            if isinstance(x, dict):
                return any(has_sym(y) for y in x.values())
            if isinstance(x, real.ndarray) and x.dtype == object:
                return any(has_sym(y) for y in x.ravel().tolist())
            return False

        def concrete_only(*a, **kw):
            if has_sym(a) or has_sym(kw):
                raise Unsupported(f"UNSUPPORTED numpy function np.{name} of a symbolic value in traced code")
            return f(*a, **kw)
        return concrete_only


NP = _NP()
