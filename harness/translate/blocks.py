"""Translator (T): the matrix every documented closed-form block builds  ->  Generated/Blocks.lean

The block classes of `/repo/lekkersim/model.py` are *executed* with symbolic parameters: while a block is
constructed and its `create_S()` runs, the name `np` of the module is bound to the stand-in of `symtrace.py`, so
every arithmetic operation, `np.exp/sqrt/cos/sin`, `np.zeros/array/identity`, element and slice store, and helper
such as `diag_blocks` is recorded as an expression tree over the real symbols given as arguments.  The resulting
entries are printed as Mathlib terms (`noncomputable def <block> (args : ℝ) : Matrix (Fin N) (Fin N) ℂ`).

Sound by construction for the traced configuration: any use of a symbolic value as a truth value, number or index
(data-dependent control flow) and any numpy feature outside the stand-in raises `Unsupported` - reported as a broken
obligation, never approximated.  What is *fixed* by the trace: which optional arguments are `None` (one generated
definition per variant), the number of modes of `UserWaveguide` (two), and that index functions are opaque symbols.
`eval_block` evaluates the same trees numerically; `props/c09.py` compares them with the running code on every run.
"""
from __future__ import annotations

import sys

from .symtrace import E, SymMat, NP, Unsupported

# (lean name, argument symbols, description of the traced configuration, builder(model_module) -> (instance, {param key: symbol}))
def _blocks(M, S=E.sym):
    """`S` maps a symbol name to the value used for it: a symbol (tracing) or a number (validation against the code)"""
    return [
        ("waveguide", ["L", "n", "wl"], "Waveguide(L, n, wl), parameter wl",
         lambda: (M.Waveguide(S("L"), S("n"), S("wl")), {"wl": "wl"})),
        ("userWaveguide2", ["L", "wl", "n0", "n1"],
         "UserWaveguide(L, func, {wl}, two modes) with func returning n0 / n1 for the two modes",
         lambda: (M.UserWaveguide(S("L"), lambda **kw: S("n%d" % kw["verif_mode"]), {"wl": S("wl")},
                                  {"m0": {"verif_mode": 0}, "m1": {"verif_mode": 1}}), {"wl": "wl"})),
        ("beamSplitter", ["ratio", "phase"], "BeamSplitter(ratio, t=None, phase)",
         lambda: (M.BeamSplitter(S("ratio"), None, S("phase")), {})),
        ("beamSplitterT", ["ratio", "t", "phase"], "BeamSplitter(ratio, t, phase)",
         lambda: (M.BeamSplitter(S("ratio"), S("t"), S("phase")), {})),
        ("splitter1x2", [], "Splitter1x2()", lambda: (M.Splitter1x2(), {})),
        ("phaseShifter", ["ps"], "PhaseShifter(), parameter PS",
         lambda: (M.PhaseShifter(), {"PS": "ps"})),
        ("pushPull", ["ps"], "PushPullPhaseShifter(), parameter PS",
         lambda: (M.PushPullPhaseShifter(), {"PS": "ps"})),
        ("polRotFixed", ["angle"], "PolRot(angle) (fixed rotation)",
         lambda: (M.PolRot(S("angle")), {})),
        ("polRotVar", ["angle"], "PolRot() (rotation read from the parameter `angle`)",
         lambda: (M.PolRot(), {"angle": "angle"})),
        ("attenuator", ["loss"], "Attenuator(loss)", lambda: (M.Attenuator(S("loss")), {})),
        ("linearAttenuator", ["c"], "LinearAttenuator(c)", lambda: (M.LinearAttenuator(S("c")), {})),
        ("mirror", ["ref", "phase"], "Mirror(ref, phase)", lambda: (M.Mirror(S("ref"), S("phase")), {})),
        ("perfectMirror", ["phase"], "PerfectMirror(phase)", lambda: (M.PerfectMirror(S("phase")), {})),
        ("thPhaseShifter", ["L", "n", "wl", "ps"],
         "TH_PhaseShifter(L, Neff, wl=wl), parameter PS; Neff(...) is the opaque symbol n",
         lambda: (M.TH_PhaseShifter(S("L"), lambda **kw: S("n"), wl=S("wl")), {"wl": "wl", "PS": "ps"})),
        ("splitter1x2Gen", ["cross", "phase"], "Splitter1x2Gen(cross, phase)",
         lambda: (M.Splitter1x2Gen(S("cross"), S("phase")), {})),
    ]


def _model_module(repo):
    import importlib
    import os
    if repo not in sys.path or sys.path[0] != repo:
        sys.path.insert(0, repo)
    os.environ.setdefault("MPLBACKEND", "Agg")
    import logging
    logging.getLogger("lekkersim").setLevel(logging.ERROR)
    M = importlib.import_module("lekkersim.model")
    f = os.path.realpath(M.__file__)
    if not f.startswith(os.path.realpath(repo) + os.sep):
        raise Unsupported(f"UNSUPPORTED lekkersim.model imported from {f}, not from {repo}")
    return M


def trace_all(repo):
    """{lean name: (args, description, SymMat)}; raises Unsupported"""
    M = _model_module(repo)
    real_np = M.np
    out = {}
    M.np = NP
    try:
        for name, args, desc, build in _blocks(M):
            try:
                inst, pmap = build()
                for k, sym in pmap.items():
                    if k not in inst.param_dic:
                        raise Unsupported(f"UNSUPPORTED {name}: parameter {k!r} is not in param_dic")
                    inst.param_dic[k] = E.sym(sym)
                mat = inst.create_S()
            except Unsupported as e:
                raise Unsupported(f"{name}: {e}")
            except Exception as e:  # the traced code failed on symbolic input: outside the subset
                raise Unsupported(f"UNSUPPORTED {name}: {type(e).__name__}: {e}")
            if not isinstance(mat, SymMat):
                raise Unsupported(f"UNSUPPORTED {name}: create_S returned {type(mat).__name__}")
            n, m = mat.shape
            if n != m or n != inst.N:
                raise Unsupported(f"UNSUPPORTED {name}: matrix shape {mat.shape} with N = {inst.N}")
            used = set()
            for r in mat.rows:
                for e in r:
                    e.symbols(used)
            extra = used - set(args)
            if extra:
                raise Unsupported(f"UNSUPPORTED {name}: undeclared symbols {sorted(extra)}")
            pins = sorted(((q.name, i) for q, i in inst.pin_dic.items()), key=lambda t: t[1])
            out[name] = (args, desc, mat, pins)
    finally:
        M.np = real_np
    return out


def eval_block(mat: SymMat, env):
    return [[complex(e.eval(env)) for e in r] for r in mat.rows]


# value ranges used when the traced expressions are validated against the running code
RANGES = {"L": (0.0, 50.0), "n": (1.0, 4.0), "n0": (1.0, 4.0), "n1": (1.0, 4.0), "wl": (1.0, 2.0), "ratio": (0.0, 1.0),
          "t": (0.0, 1.0), "phase": (-1.0, 1.0), "ps": (-2.0, 2.0), "angle": (-1.0, 1.0), "loss": (0.0, 30.0), "c": (0.0, 1.0),
          "ref": (0.0, 1.0), "cross": (0.0, 0.5)}


def real_block(repo, name, env):
    """the matrix the running code (real numpy) returns for the traced configuration at the values `env`"""
    import numpy as np
    M = _model_module(repo)
    for nm, args, desc, build in _blocks(M, lambda k: env[k]):
        if nm == name:
            inst, pmap = build()
            res = inst.solve(**{k: env[sym] for k, sym in pmap.items()})
            return np.array(res.S)[0]
    raise KeyError(name)


def _entry(e: E):
    if e.op == "rat" and e.args[0] == 0:
        return "0"
    return e.lean()


def generate(repo: str) -> str:
    blocks = trace_all(repo)
    out = ["-- GENERATED on every run by harness/translate/blocks.py (symbolic execution of the block classes of",
           "-- /repo/lekkersim/model.py) — do not edit.",
           "import Mathlib.Analysis.SpecialFunctions.Complex.Circle",
           "import Mathlib.Analysis.SpecialFunctions.Pow.Real",
           "import Mathlib.Analysis.SpecialFunctions.Trigonometric.Basic",
           "import Mathlib.LinearAlgebra.Matrix.Notation",
           "", "namespace Generated.Blocks", ""]
    for name, (args, desc, mat, pins) in blocks.items():
        n = mat.shape[0]
        binder = f" ({' '.join(args)} : ℝ)" if args else ""
        rows = ";\n    ".join(", ".join(_entry(e) for e in r) for r in mat.rows)
        out += [f"/-- traced: {desc} -/",
                f"noncomputable def {name}{binder} : Matrix (Fin {n}) (Fin {n}) ℂ :=",
                f"  !![{rows}]", ""]
    q = lambda t: '"' + t + '"'
    out += ["/-- pin name -> matrix row of every traced block, as found in its `pin_dic` (sorted by row) -/",
            "def pins : List (String × List (String × Nat)) := ["]
    out.append(",\n".join("  (" + q(name) + ", [" + ", ".join(f"({q(pn)}, {i})" for pn, i in v[3]) + "])" for name, v in blocks.items()) + "]")
    out += ["", "end Generated.Blocks", ""]
    return "\n".join(out)


if __name__ == "__main__":
    print(generate(sys.argv[1] if len(sys.argv) > 1 else "/repo"))
