"""Behavioural facts obtained by instrumented execution of the current source (used by `tables.py`).

Each probe builds a tiny circuit, plants a marker in the piece of working state the fact is about, runs the real code
and reports whether the marker had any influence.  They replace purely syntactic recognisers (which broke on harmless
rewrites: `dict()` for `{}`, a comprehension for an append loop): the fact a theorem needs is *what the code does with
the state*, not how it is spelled.  A probe that raises reports `False` (the fact is not established) and the reason.
A probe is one execution: it establishes the fact for the probed circuit only; the property oracles vary the circuit.
"""
from __future__ import annotations

import logging


def _lk(repo):
    from .blocks import _model_module
    _model_module(repo)
    import lekkersim
    return lekkersim


def _quiet():
    lg = logging.getLogger("lekkersim")
    lvl = lg.level
    lg.setLevel(logging.CRITICAL)
    return lg, lvl


def _ps_circuit(lk):
    """waveguide - phase shifter chain, all free pins raised"""
    with lk.Solver() as sol:
        wg = lk.Waveguide(3.0, n=1.5).put()
        ps = lk.PhaseShifter().put("a0", wg.pin["b0"])
        lk.raise_pins()
    return sol, wg, ps


def solve_resets_params(lk):
    """`Solver.solve` does not see what an earlier (possibly aborted) call left in `Solver.param_dic`"""
    import numpy as np
    sol, _, _ = _ps_circuit(lk)
    clean = np.array(sol.solve(wl=1.55, PS=0.25).S)
    sol.param_dic = {"verif_marker": np.array([1.0, 2.0, 3.0]), "PS": np.array([0.75])}
    r = sol.solve(wl=1.55)
    ref = np.array(_ps_circuit(lk)[0].solve(wl=1.55).S)
    return "verif_marker" not in r.solved_params and np.array(r.S).shape == ref.shape and np.allclose(np.array(r.S), ref) \
        and not np.allclose(clean, ref)


def solve_resets_structures(lk):
    """`Solver.solve` does not see forwarding pointers / working parameters left on the structures"""
    import numpy as np
    sol, wg, ps = _ps_circuit(lk)
    ref = np.array(sol.solve(wl=1.55, PS=0.25).S)
    wg.gone_to = ps                      # as left behind by a solve that raised after its first merge
    ps.param_dic = {"PS": np.array([0.9])}
    wg.param_dic = {"wl": np.array([1.0])}
    r = np.array(sol.solve(wl=1.55, PS=0.25).S)
    return r.shape == ref.shape and np.allclose(r, ref)


def split_resets_partition(lk):
    """`Structure.split_in_out` starts from an empty partition"""
    sol, wg, ps = _ps_circuit(lk)
    wg.update_params({"wl": 1.55})
    wg.createS()
    pins = [p for p in wg.pin_list]
    wg.in_pins = {"verif_marker_in": 7}
    wg.out_pins = {"verif_marker_out": 8}
    wg.split_in_out(pins[:1], pins[1:])
    return set(wg.in_pins) == set(pins[:1]) and set(wg.out_pins) == set(pins[1:])


def monitor_closure_bound(lk):
    """the monitor read-out of a returned result does not follow later solves of the same solver"""
    import numpy as np
    with lk.Solver() as sol:
        bm = lk.BeamSplitter(ratio=0.1).put()
        wg = lk.Waveguide(100.0).put("a0", bm.pin["b1"])
        lk.connect(wg.pin["b0"], bm.pin["a1"])
        lk.raise_pins()
        lk.add_structure_to_monitors(wg)
    r1 = sol.solve(wl=1.55)
    m1 = r1.get_monitor({"a0": 1.0}).to_numpy().astype(complex)
    r2 = sol.solve(wl=1.5507)
    m2 = r2.get_monitor({"a0": 1.0}).to_numpy().astype(complex)
    m1b = r1.get_monitor({"a0": 1.0}).to_numpy().astype(complex)
    return m1.shape == m1b.shape and np.allclose(m1, m1b) and not np.allclose(m1, m2)


def model_solve_copies(lk):
    """`Model.solve` collects a *copy* of what `create_S` returns: a block that rebuilds its matrix in one persistent
    buffer still yields one matrix per sweep point"""
    import numpy as np

    class Probe(lk.Model):
        def __init__(self):
            self.pin_dic = {lk.Pin("a0"): 0, lk.Pin("b0"): 1}
            self.N = 2
            self.param_dic = {"x": 0.0}
            self.default_params = {"x": 0.0}
            self.S = np.zeros((2, 2), complex)
            self.update_pins()

        def create_S(self):
            self.S[0, 1] = self.param_dic["x"]
            self.S[1, 0] = 2.0 * self.param_dic["x"]
            return self.S

    m = Probe()
    xs = np.array([1.0, 2.0, 3.0])
    r = np.array(m.solve(x=xs).S)
    want = np.zeros((3, 2, 2), complex)
    want[:, 0, 1] = xs
    want[:, 1, 0] = 2.0 * xs
    return r.shape == want.shape and np.allclose(r, want) and not np.shares_memory(r, m.S)


def stack_kinds(lk):
    """(enterKind, exitKind): what `Solver.__enter__` / `__exit__` do to `sol_list`, observed on a re-entrant stack
    `[d, s, t]` + enter `s` (must become `[d, s, t, s]`), and exit of the inner `s` from `[d, s, t, s]` with and without an
    exception in flight (must become `[d, s, t]`)"""
    saved = list(lk.sol_list)
    try:
        d, s, t = lk.Solver(), lk.Solver(name="verif_s"), lk.Solver(name="verif_t")

        def same(a, b):
            return len(a) == len(b) and all(x is y for x, y in zip(a, b))
        lk.sol_list[:] = [d, s, t]
        try:
            s.__enter__()
            after = list(lk.sol_list)
            enter = "push" if same(after, [d, s, t, s]) else ("nop" if same(after, [d, s, t]) else "other")
        except Exception:
            enter = "other"
        res = []
        for exc in (None, ValueError("verif")):
            lk.sol_list[:] = [d, s, t, s]
            try:
                r = s.__exit__(None, None, None) if exc is None else s.__exit__(type(exc), exc, None)
                after = list(lk.sol_list)
                if r:
                    res.append("other")            # the exception would be swallowed
                else:
                    res.append("pop" if same(after, [d, s, t]) else ("keep" if same(after, [d, s, t, s]) else "other"))
            except Exception:
                res.append("other")
        exit_ = {("pop", "pop"): "popAlways", ("pop", "keep"): "popOnNormal", ("keep", "pop"): "popOnRaise",
                 ("keep", "keep"): "nop"}.get(tuple(res), "other")
        return enter, exit_
    finally:
        lk.sol_list[:] = saved


def helper_targets(lk):
    """for every helper kind: which solver of the stack `[s0, s1, s3, s2]` it acts on, observed through the state it changes
    (the harness' own `World`): "top" (only the innermost active solver), "none" (no observable effect) or "other" """
    from props import c17
    out = []
    for h, name in enumerate(c17.HELPERS):
        w = c17.World()
        try:
            lk.sol_list[:] = [w.solvers[0], w.solvers[1], w.solvers[3], w.solvers[2]]
            try:
                obs = w.call(h)
            except Exception as e:  # noqa
                out.append((name, "other"))
                continue
            out.append((name, "top" if obs == 2 else ("none" if obs is None else "other")))
        finally:
            lk.sol_list[:] = w.orig
    return out


def block_interface(lk):
    """{documented block class: (name table built at construction, str() works for int / float / numpy-typed arguments and for a complex
    value where an argument is documented as "float or complex")}, observed on
    one instance per argument typing (arguments in the middle of their documented range, integer-valued where the typing needs it)"""
    import numpy as np
    from props import c09
    B = c09.blocks()
    out = {}
    for name, spec in B.items():
        if ":" in name:
            continue
        table_ok, str_ok = True, True
        for typ in (float, int, np.float64, np.int64, complex):
            a = {}
            for k, (lo, hi) in spec["args"].items():
                if k == "fixed":
                    a[k] = True
                elif k in c09.INT_ONLY:
                    a[k] = int(round((lo + hi) / 2))
                else:
                    v = lo + 0.37 * (hi - lo)
                    if typ in (int, np.int64):
                        v = float(min(max(round(v), np.ceil(lo)), np.floor(hi)))
                    if typ is complex:
                        a[k] = complex(v, 0.002) if k in getattr(c09, "COMPLEX_OK", ()) else float(v)
                    else:
                        a[k] = typ(v) if k in c09.INT_OK else float(v)
            try:
                m = spec["make"](a)
            except Exception:
                table_ok = str_ok = False
                break
            try:
                table_ok = table_ok and set(m.pin.keys()) == {p.name for p in m.pin_dic}
            except Exception:
                table_ok = False
            try:
                str(m)
            except Exception:
                str_ok = False
        out[name] = (bool(table_ok), bool(str_ok))
    return out


def run_stack(repo):
    lk = _lk(repo)
    lg, lvl = _quiet()
    try:
        return stack_kinds(lk), helper_targets(lk), block_interface(lk)
    finally:
        lg.setLevel(lvl)


PROBES = {
    "solveResetsParams": solve_resets_params,
    "solveResetsStructures": solve_resets_structures,
    "splitResetsPartition": split_resets_partition,
    "monitorClosureBound": monitor_closure_bound,
    "modelSolveCopies": model_solve_copies,
}


def run_all(repo):
    """{fact: (bool, note)}"""
    lk = _lk(repo)
    lg, lvl = _quiet()
    saved = list(lk.sol_list)
    out = {}
    try:
        for name, fn in PROBES.items():
            try:
                out[name] = (bool(fn(lk)), "")
            except Exception as e:  # noqa: the fact is not established
                out[name] = (False, f"{type(e).__name__}: {str(e)[:120]}")
            finally:
                lk.sol_list[:] = saved
    finally:
        lg.setLevel(lvl)
    return out


if __name__ == "__main__":
    import sys
    print(run_all(sys.argv[1] if len(sys.argv) > 1 else "/repo"))
