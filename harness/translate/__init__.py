"""Translators: /repo source -> lean/LekkerVerif/Generated/<Name>.lean"""
import importlib

NAMES = {"Kernel": "kernel", "Blocks": "blocks", "Tables": "tables", "Readout": "readout", "Modes": "modes", "InPulse": "inpulse"}


def registry():
    reg = {}
    for name, mod in NAMES.items():
        try:
            m = importlib.import_module(f"translate.{mod}")
        except ModuleNotFoundError:
            continue
        reg[name] = m.generate
    return reg
