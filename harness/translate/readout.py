"""Translator (T): the read-out helpers of `lekkersim/model.py`  ->  Generated/Readout.lean

`get_T / get_PH / get_A / get_output / get_data / get_full_output / get_full_data` are *executed* on a solved model
whose matrix stack is a numpy object array of complex symbols `S k i j` (two sweep points, three pins whose matrix
indices are a non-trivial permutation, one pin carrying a mode name) and whose excitation is symbolic; while they run,
the module's `np` is a proxy of the real numpy in which array constructors give object arrays and `abs / angle / log10`
act on symbols.  Every returned number is an expression tree, printed as a Mathlib term.  Data-dependent control flow on
a symbolic value, or a numpy feature that does not work on object arrays, raises `Unsupported` (a broken obligation).

Fixed by the trace: the sizes (K = 2, N = 3), the pin -> index map `p -> 2, q -> 0, p_m1 -> 1`, which pins are excited
(`p` and `p_m1`; `q` is left unspecified and must count as zero).  The theorems of `Properties/C15.lean` identify each
traced result with the size-generic model evaluated at this instance.
"""
from __future__ import annotations

import sys

from .symtrace import E, Unsupported, _num_to_E
from .blocks import _model_module

K, N = 2, 3
PINS = [("p", None, 2), ("q", None, 0), ("p", "m1", 1)]       # (basename, mode, matrix index): two modes of port p


class NPObj:
    """real numpy, except that freshly created arrays hold objects and a few functions understand symbols"""

    def __init__(self, real):
        object.__setattr__(self, "_np", real)

    def __getattr__(self, name):
        return getattr(self._np, name)

    def zeros(self, shape, dtype=None, **kw):
        a = self._np.empty(shape, dtype=object)
        a.fill(_num_to_E(0))
        return a

    def array(self, obj, dtype=None, **kw):
        np = self._np
        a = np.array(obj, dtype=object)
        if any(isinstance(x, E) for x in a.ravel()):
            return a
        return np.array(obj, dtype=dtype, **kw)

    def _ew(self, f, x):
        np = self._np
        if isinstance(x, E):
            return f(x)
        if isinstance(x, np.ndarray) and x.dtype == object:
            return np.frompyfunc(lambda e: f(_num_to_E(e)), 1, 1)(x)
        return None

    def abs(self, x):
        r = self._ew(lambda e: e.__abs__(), x)
        return self._np.abs(x) if r is None else r

    absolute = abs

    def angle(self, x, deg=False):
        if deg:
            raise Unsupported("UNSUPPORTED np.angle(deg=True)")
        r = self._ew(lambda e: e.angle(), x)
        return self._np.angle(x) if r is None else r

    def log10(self, x):
        r = self._ew(lambda e: e.log10(), x)
        return self._np.log10(x) if r is None else r

    def real(self, x):
        raise Unsupported("UNSUPPORTED np.real on traced values")

    imag = real


def _sym_model(M):
    import numpy as np
    S = np.empty((K, N, N), dtype=object)
    for k in range(K):
        for i in range(N):
            for j in range(N):
                S[k, i, j] = E.csym(f"(S {k} {i} {j})")
    pin_dic = {M.Pin(b, m): i for b, m, i in PINS}
    sm = M.SolvedModel(pin_dic=pin_dic, param_dic={"wl": np.array([1.0, 2.0])}, Smatrix=S)
    return sm


def _col(df, key):
    return list(df[key].values)


def trace_all(repo):
    """ordered {lean name: (kind, [E ...])}; kind 'R' real-valued, 'C' complex-valued"""
    M = _model_module(repo)
    real_np = M.np
    out = {}
    M.np = NPObj(real_np)
    import logging
    lg = logging.getLogger("lekkersim")
    lvl = lg.level
    lg.setLevel(logging.CRITICAL)
    try:
        try:
            sm = _sym_model(M)
            names = [M.Pin(b, m).name for b, m, _ in PINS]                  # p, q, p_m1
            up, ur = E.csym("up"), E.csym("ur")
            out["get_T"] = ("R", [sm.get_T("p", "q")])
            out["get_PH"] = ("R", [sm.get_PH("p", "q")])
            out["get_A"] = ("C", [sm.get_A("p", "q")])
            o = sm.get_output({"p": up, "p_m1": ur}, power=False)
            out["get_output_amp"] = ("C", [o[n] for n in names])
            o = sm.get_output({"p": up, "p_m1": ur}, power=True)
            out["get_output_pow"] = ("R", [o[n] for n in names])
            d = sm.get_data("p_m1", "p")
            for col, kind in (("T", "R"), ("dB", "R"), ("Phase", "R"), ("Amplitude", "C")):
                out[f"get_data_{col}"] = (kind, _col(d, col))
            f = sm.get_full_output({"p": up, "p_m1": ur}, power=False)
            out["get_full_output_amp"] = ("C", [e for n in names for e in _col(f, n)])   # pin-major, then sweep point
            f = sm.get_full_output({"p": up, "p_m1": ur}, power=True)
            out["get_full_output_pow"] = ("R", [e for n in names for e in _col(f, n)])
            g = sm.get_full_data()
            pins = list(sm.pin_dic.keys())
            out["get_full_data"] = ("C", [e for a in pins for b in pins for e in _col(g, (a, b))])
        except Unsupported:
            raise
        except Exception as e:  # outside the subset
            raise Unsupported(f"UNSUPPORTED read-out helper on symbolic input: {type(e).__name__}: {e}")
        for k, (kind, es) in out.items():
            for e in es:
                if not isinstance(e, E):
                    try:
                        e2 = _num_to_E(e)
                    except Unsupported:
                        raise Unsupported(f"UNSUPPORTED {k}: returned {type(e).__name__}")
                if kind == "R" and isinstance(e, E) and not e.real:
                    raise Unsupported(f"UNSUPPORTED {k}: complex value where a real one is documented")
            out[k] = (kind, [x if isinstance(x, E) else _num_to_E(x) for x in es])
    finally:
        M.np = real_np
        lg.setLevel(lvl)
    return out


SHAPES = {"get_T": None, "get_PH": None, "get_A": None, "get_output_amp": (N,), "get_output_pow": (N,),
          "get_data_T": (K,), "get_data_dB": (K,), "get_data_Phase": (K,), "get_data_Amplitude": (K,),
          "get_full_output_amp": (N, K), "get_full_output_pow": (N, K), "get_full_data": (N, N, K)}


def _vec(items, shape):
    if len(shape) == 1:
        return "![" + ", ".join(items) + "]"
    step = len(items) // shape[0]
    return "![" + ",\n    ".join(_vec(items[i * step:(i + 1) * step], shape[1:]) for i in range(shape[0])) + "]"


def generate(repo: str) -> str:
    tr = trace_all(repo)
    out = ["-- GENERATED on every run by harness/translate/readout.py (symbolic execution of the read-out helpers of",
           "-- /repo/lekkersim/model.py on a solved model with symbolic matrix stack) — do not edit.",
           "import Mathlib.Analysis.SpecialFunctions.Log.Base",
           "import Mathlib.Analysis.SpecialFunctions.Complex.Arg",
           "import Mathlib.Analysis.Complex.Norm",
           "import Mathlib.LinearAlgebra.Matrix.Notation",
           "", "namespace Generated.Readout", "",
           f"/-! traced instance: {K} sweep points, {N} pins `p, q, p_m1` at matrix indices `2, 0, 1`; `S k i j` is the entry",
           "`S[k, i, j]` of the solved stack; excitation `{p: up, p_m1: ur}` (pin `q` unspecified). Vectors over pins are in the",
           "order `p, q, p_m1`; sweep tables are indexed pin-major, then sweep point. -/", "",
           f"variable (S : Fin {K} → Matrix (Fin {N}) (Fin {N}) ℂ) (up ur : ℂ)", ""]
    for name, (kind, es) in tr.items():
        shape = SHAPES[name]
        ty = "ℝ" if kind == "R" else "ℂ"
        items = [(e._lr() if kind == "R" else e._lc()) for e in es]
        if kind == "R":
            bad = [e for e in es if not e.real]
            if bad:
                raise Unsupported(f"UNSUPPORTED {name}: complex-valued result")
        if shape is None:
            out += [f"noncomputable def {name} : {ty} :=", f"  {items[0]}", ""]
        else:
            import math
            if len(items) != math.prod(shape):
                raise Unsupported(f"UNSUPPORTED {name}: {len(items)} values for shape {shape}")
            t = ty
            for d in reversed(shape):
                t = f"Fin {d} → {t}" if t in ("ℝ", "ℂ") else f"Fin {d} → ({t})"
            out += [f"noncomputable def {name} : {t} :=", f"  {_vec(items, shape)}", ""]
    out += ["end Generated.Readout", ""]
    return "\n".join(out)


def eval_all(tr, env):
    return {k: [complex(e.eval(env)) for e in es] for k, (kind, es) in tr.items()}


def real_all(repo, env):
    """the same calls on a real solved model with the numeric stack given by `env`"""
    import numpy as np
    M = _model_module(repo)
    S = np.zeros((K, N, N), complex)
    for k in range(K):
        for i in range(N):
            for j in range(N):
                S[k, i, j] = env[f"(S {k} {i} {j})"]
    pin_dic = {M.Pin(b, m): i for b, m, i in PINS}
    sm = M.SolvedModel(pin_dic=pin_dic, param_dic={"wl": np.array([1.0, 2.0])}, Smatrix=S)
    names = [M.Pin(b, m).name for b, m, _ in PINS]
    up, ur = env["up"], env["ur"]
    import logging
    lg = logging.getLogger("lekkersim")
    lvl = lg.level
    lg.setLevel(logging.CRITICAL)
    try:
        out = {"get_T": [sm.get_T("p", "q")], "get_PH": [sm.get_PH("p", "q")], "get_A": [sm.get_A("p", "q")]}
        o = sm.get_output({"p": up, "p_m1": ur}, power=False)
        out["get_output_amp"] = [o[n] for n in names]
        o = sm.get_output({"p": up, "p_m1": ur}, power=True)
        out["get_output_pow"] = [o[n] for n in names]
        d = sm.get_data("p_m1", "p")
        for col in ("T", "dB", "Phase", "Amplitude"):
            out[f"get_data_{col}"] = list(d[col].values)
        f = sm.get_full_output({"p": up, "p_m1": ur}, power=False)
        out["get_full_output_amp"] = [e for n in names for e in f[n].values]
        f = sm.get_full_output({"p": up, "p_m1": ur}, power=True)
        out["get_full_output_pow"] = [e for n in names for e in f[n].values]
        g = sm.get_full_data()
        pins = list(sm.pin_dic.keys())
        out["get_full_data"] = [e for a in pins for b in pins for e in g[(a, b)].values]
    finally:
        lg.setLevel(lvl)
    return {k: [complex(x) for x in v] for k, v in out.items()}


if __name__ == "__main__":
    print(generate(sys.argv[1] if len(sys.argv) > 1 else "/repo"))
