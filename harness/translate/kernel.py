"""Translator (T): lekkersim/scattering.py  ->  lean/LekkerVerif/Generated/Kernel.lean

`S_matrix.add` and `S_matrix.int_complete` of the *current* source are executed on operands whose four blocks are
symbolic matrices (`A.S11 : k×n`, … for the left operand of dimensions `(N, M) = (n, k)`, the right one `(k, m)`;
the three dimensions are distinct numbers, so every shape identifies its index types) while the names `np` and
`linalg` of the module are bound to a stand-in that records matrix-level operations:

  np.matmul(X, Y), X @ Y, np.dot(X, Y)   ->  X * Y     (matrix·matrix)  /  X *ᵥ y (matrix·vector)
  linalg.inv(X), np.linalg.inv(X)        ->  X⁻¹
  linalg.solve(X, y)                     ->  X⁻¹ *ᵥ y   (X⁻¹ * Y for a matrix right-hand side)
  np.identity(d[, dtype]), np.eye(d)     ->  (1 : Matrix d d F)
  np.zeros(shape)                        ->  0
  X + Y, X - Y, -X, np.add / subtract / negative
  np.expand_dims(v, -1), np.squeeze(v, -1), v[:, None], v.reshape(-1, 1)  -> v   (column-vector bookkeeping)
  np.broadcast_to(X, X.shape), X.astype(..), X.copy()                       -> X
  len(v), X.shape, np.shape(X)           ->  the (concrete) trace dimensions

Because the code is *run*, helper functions, loops, comprehensions, renamed temporaries and hoisted sub-expressions
are transparent.  Anything else (element access, a truth value of a symbolic array, an unknown numpy function) raises
`Unsupported`, reported as a broken obligation, never approximated.  The dimension guard is established by executing
`add` on operands with mismatched intermediate dimensions (it must raise *before* any arithmetic), the result shape by
reading `N`/`M` of the returned object.
"""
from __future__ import annotations

import sys


class Unsupported(Exception):
    pass


class ShapeMismatch(ValueError):
    """raised by the stand-in itself when shapes do not fit (i.e. the traced code did not reject them first)"""


DIMS = {2: "n", 3: "k", 5: "m"}          # trace sizes -> index types
N_, K_, M_ = 2, 3, 5


class MX:
    """symbolic matrix (shape (r, c)) or vector (shape (r,) — `col` marks the (r, 1) column form)"""
    __array_priority__ = 3000
    __array_ufunc__ = None

    def __init__(self, op, args, shape, col=False):
        self.op, self.args, self.shape, self.col = op, tuple(args), tuple(shape), col

    # ---- structure ------------------------------------------------------------------------------------------
    @property
    def is_vec(self):
        return len(self.shape) == 1

    @property
    def ndim(self):
        return 2 if (not self.is_vec or self.col) else 1

    def __len__(self):
        return self.shape[0]

    def _no(self, what):
        raise Unsupported(f"UNSUPPORTED {what} of a symbolic array in the kernel")

    def __bool__(self):
        self._no("truth value")

    def __iter__(self):
        self._no("iteration")

    def __getitem__(self, key):
        # v[:, None] / v[..., None] / v[:, np.newaxis]: column form
        if self.is_vec and isinstance(key, tuple) and len(key) == 2 and key[1] is None and key[0] in (slice(None), Ellipsis):
            return MX(self.op, self.args, self.shape, col=True)
        if self.is_vec and self.col and isinstance(key, tuple) and len(key) == 2 and key[0] in (slice(None), Ellipsis) and key[1] == 0:
            return MX(self.op, self.args, self.shape, col=False)
        self._no(f"indexing [{key!r}]")

    def reshape(self, *shape):
        shape = shape[0] if len(shape) == 1 and isinstance(shape[0], (tuple, list)) else shape
        if self.is_vec and tuple(shape) in ((-1, 1), (self.shape[0], 1)):
            return MX(self.op, self.args, self.shape, col=True)
        if self.is_vec and tuple(shape) in ((-1,), (self.shape[0],)):
            return MX(self.op, self.args, self.shape, col=False)
        self._no(f"reshape{tuple(shape)!r}")

    def copy(self):
        return self

    def squeeze(self, axis=None):
        return _NP.squeeze(self, axis)

    def astype(self, dtype, **kw):
        return self

    def __deepcopy__(self, memo):
        return self

    # ---- algebra --------------------------------------------------------------------------------------------
    def _lin(self, op, o, swap=False):
        if not isinstance(o, MX):
            if isinstance(o, (int, float, complex)) and o == 0:
                return self if (op == "add" or not swap) else -self
            raise Unsupported(f"UNSUPPORTED {op} of a symbolic array and {type(o).__name__}")
        if o.shape != self.shape:
            raise Unsupported(f"UNSUPPORTED broadcasting {self.shape} with {o.shape}")
        a, b = (o, self) if swap else (self, o)
        return MX(op, (a, b), self.shape, col=self.col or o.col)

    def __add__(self, o):
        return self._lin("add", o)

    def __radd__(self, o):
        return self._lin("add", o, True)

    def __sub__(self, o):
        return self._lin("sub", o)

    def __rsub__(self, o):
        return self._lin("sub", o, True)

    def __neg__(self):
        return MX("neg", (self,), self.shape, col=self.col)

    def __pos__(self):
        return self

    def __matmul__(self, o):
        return matmul(self, o)

    def __rmatmul__(self, o):
        return matmul(o, self)

    def __mul__(self, o):
        self._no("element-wise product")

    __rmul__ = __truediv__ = __mul__

    # ---- printing -------------------------------------------------------------------------------------------
    def lean(self):
        op, a = self.op, self.args
        if op == "leaf":
            return a[0]
        if op == "one":
            d = DIMS[self.shape[0]]
            return f"(1 : Matrix {d} {d} F)"
        if op == "zero":
            if self.is_vec:
                return f"(0 : {DIMS[self.shape[0]]} → F)"
            return f"(0 : Matrix {DIMS[self.shape[0]]} {DIMS[self.shape[1]]} F)"
        if op == "neg":
            return f"(-{a[0].lean()})"
        if op in ("add", "sub"):
            return f"({a[0].lean()} {'+' if op == 'add' else '-'} {a[1].lean()})"
        if op == "mul":
            return f"({a[0].lean()} * {a[1].lean()})"
        if op == "mulVec":
            return f"({a[0].lean()} *ᵥ {a[1].lean()})"
        if op == "inv":
            return f"({a[0].lean()})⁻¹"
        raise Unsupported(f"UNSUPPORTED node {op}")


def matmul(x, y):
    if isinstance(x, MX) and isinstance(y, HCat):
        return HCat([matmul(x, p) for p in y.parts])
    if not isinstance(x, MX) or not isinstance(y, MX):
        raise Unsupported("UNSUPPORTED matrix product with a non-symbolic operand")
    if x.is_vec:
        raise Unsupported("UNSUPPORTED vector on the left of a matrix product")
    if x.shape[1] != y.shape[0]:
        raise ShapeMismatch(f"matmul: mismatch {x.shape} @ {y.shape}")
    if y.is_vec:
        return MX("mulVec", (x, y), (x.shape[0],), col=y.col)
    return MX("mul", (x, y), (x.shape[0], y.shape[1]))


class HCat:
    """several symbolic matrices with the same rows side by side (`np.concatenate(..., axis=-1)`): a right-hand side with
    several column blocks.  Only what distributes over the blocks is supported: a matrix product / linear solve from the left,
    and taking the blocks apart again at the same boundaries (`np.split`, `np.hsplit`, column slices)."""
    __array_priority__ = 3000
    __array_ufunc__ = None

    def __init__(self, parts):
        self.parts = list(parts)
        rows = {p.shape[0] for p in self.parts}
        if len(rows) != 1 or any(p.is_vec for p in self.parts):
            raise Unsupported("UNSUPPORTED concatenation of blocks with different row counts / of vectors")
        self.shape = (self.parts[0].shape[0], sum(p.shape[1] for p in self.parts))
        self.ndim = 2

    def _bounds(self):
        out, c = [], 0
        for p in self.parts:
            out.append((c, c + p.shape[1]))
            c += p.shape[1]
        return out

    def split(self, cuts):
        cuts = [int(c) for c in cuts]
        if cuts != [b for _, b in self._bounds()][:-1]:
            raise Unsupported(f"UNSUPPORTED split of concatenated blocks at {cuts} (block boundaries {self._bounds()})")
        return list(self.parts)

    def __getitem__(self, key):
        if isinstance(key, tuple) and len(key) == 2 and key[0] in (slice(None), Ellipsis) and isinstance(key[1], slice) and key[1].step in (None, 1):
            a = 0 if key[1].start is None else key[1].start
            b = self.shape[1] if key[1].stop is None else key[1].stop
            a, b = (a + self.shape[1] if a < 0 else a), (b + self.shape[1] if b < 0 else b)
            for (lo, hi), p in zip(self._bounds(), self.parts):
                if (lo, hi) == (a, b):
                    return p
        raise Unsupported(f"UNSUPPORTED indexing [{key!r}] of concatenated blocks")

    def __bool__(self):
        raise Unsupported("UNSUPPORTED truth value of a symbolic array in the kernel")

    def __rmatmul__(self, o):
        return matmul(o, self)


def _has_sym(x):
    if isinstance(x, (MX, HCat)):
        return True
    if isinstance(x, (list, tuple)):
        return any(_has_sym(y) for y in x)
    if isinstance(x, dict):
        return any(_has_sym(y) for y in x.values())
    return False


def _dim(k):
    if isinstance(k, bool) or not isinstance(k, int) or k not in DIMS:
        raise Unsupported(f"UNSUPPORTED dimension {k!r} (not one of the trace dimensions)")
    return k


class _Linalg:
    @staticmethod
    def inv(x):
        if not isinstance(x, MX) or x.is_vec or x.shape[0] != x.shape[1]:
            raise Unsupported("UNSUPPORTED linalg.inv operand")
        return MX("inv", (x,), x.shape)

    @staticmethod
    def solve(a, b):
        if isinstance(b, HCat):
            ia = _Linalg.inv(a)
            return HCat([matmul(ia, p) for p in b.parts])
        return matmul(_Linalg.inv(a), b)

    def __getattr__(self, name):
        raise Unsupported(f"UNSUPPORTED linalg.{name} in the kernel")


class _NP:
    linalg = _Linalg()
    newaxis = None
    complex128 = complex

    @staticmethod
    def identity(k, dtype=None):
        return MX("one", (), (_dim(k), _dim(k)))

    @staticmethod
    def eye(k, M=None, k_=0, dtype=None, **kw):
        if M not in (None, k) or k_ != 0 or kw.get("k", 0) != 0:
            raise Unsupported("UNSUPPORTED np.eye variant")
        return MX("one", (), (_dim(k), _dim(k)))

    @staticmethod
    def zeros(shape, dtype=None):
        if isinstance(shape, int):
            return MX("zero", (), (_dim(shape),))
        shape = tuple(shape)
        if len(shape) == 1:
            return MX("zero", (), (_dim(shape[0]),))
        if len(shape) == 2 and shape[1] == 1:
            return MX("zero", (), (_dim(shape[0]),), col=True)
        if len(shape) == 2:
            return MX("zero", (), (_dim(shape[0]), _dim(shape[1])))
        raise Unsupported(f"UNSUPPORTED zeros{shape}")

    @staticmethod
    def zeros_like(x, dtype=None):
        return MX("zero", (), x.shape, col=x.col)

    matmul = staticmethod(matmul)
    dot = staticmethod(matmul)

    @staticmethod
    def add(a, b):
        return a + b

    @staticmethod
    def subtract(a, b):
        return a - b

    @staticmethod
    def negative(a):
        return -a

    @staticmethod
    def expand_dims(v, axis):
        if isinstance(v, MX) and v.is_vec and axis in (-1, 1):
            return MX(v.op, v.args, v.shape, col=True)
        raise Unsupported("UNSUPPORTED np.expand_dims use")

    @staticmethod
    def squeeze(v, axis=None):
        if isinstance(v, MX) and v.is_vec and axis in (-1, 1, None):
            return MX(v.op, v.args, v.shape, col=False)
        raise Unsupported("UNSUPPORTED np.squeeze use")

    @staticmethod
    def concatenate(xs, axis=0, **kw):
        xs = list(xs)
        if axis in (-1, 1) and xs and all(isinstance(x, MX) and not x.is_vec for x in xs):
            return xs[0] if len(xs) == 1 else HCat(xs)
        raise Unsupported("UNSUPPORTED np.concatenate use in the kernel")

    @staticmethod
    def hstack(xs, **kw):
        return _NP.concatenate(xs, axis=1)

    @staticmethod
    def split(x, cuts, axis=0):
        if isinstance(x, HCat) and axis in (-1, 1) and not isinstance(cuts, int):
            return x.split(list(cuts))
        if isinstance(x, MX) and not x.is_vec and axis in (-1, 1) and not isinstance(cuts, int) and len(list(cuts)) == 0:
            return [x]
        raise Unsupported("UNSUPPORTED np.split use in the kernel")

    array_split = split

    @staticmethod
    def hsplit(x, cuts):
        return _NP.split(x, cuts, axis=1)

    @staticmethod
    def broadcast_to(x, shape):
        if isinstance(x, MX) and tuple(shape) == _NP.shape(x):
            return x
        raise Unsupported("UNSUPPORTED np.broadcast_to that changes the shape")

    @staticmethod
    def shape(x):
        if isinstance(x, HCat):
            return x.shape
        if isinstance(x, MX):
            return x.shape + ((1,) if x.is_vec and x.col else ())
        raise Unsupported("UNSUPPORTED np.shape argument")

    @staticmethod
    def asarray(x, dtype=None):
        return x

    array = asarray

    @staticmethod
    def copy(x):
        return x

    def __getattr__(self, name):
        # a numpy function applied to concrete values only (shapes, counts, index arithmetic) is plain execution
        import numpy as real
        f = getattr(real, name, None)
        if f is None or not callable(f):
            raise Unsupported(f"UNSUPPORTED np.{name} in the kernel")

        def concrete_only(*a, **kw):
            if _has_sym(a) or _has_sym(kw):
                raise Unsupported(f"UNSUPPORTED np.{name} of a symbolic array in the kernel")
            return f(*a, **kw)
        return concrete_only


def _module(repo):
    import importlib
    import os
    from .blocks import _model_module
    _model_module(repo)
    S = importlib.import_module("lekkersim.scattering")
    f = os.path.realpath(S.__file__)
    if not f.startswith(os.path.realpath(repo) + os.sep):
        raise Unsupported(f"UNSUPPORTED lekkersim.scattering imported from {f}")
    return S


def _operand(Smod, name, N, M):
    X = Smod.S_matrix(N, M)
    X.S11 = MX("leaf", (f"{name}.S11",), (M, N))
    X.S22 = MX("leaf", (f"{name}.S22",), (N, M))
    X.S12 = MX("leaf", (f"{name}.S12",), (M, M))
    X.S21 = MX("leaf", (f"{name}.S21",), (N, N))
    return X


def trace(repo):
    Smod = _module(repo)
    saved = {k: getattr(Smod, k) for k in ("np", "linalg") if hasattr(Smod, k)}
    info = {}
    # ---- matching operands of the real code are accepted
    try:
        Smod.S_matrix(2, 3).add(Smod.S_matrix(3, 4))
        info["accepts_matching"] = True
    except Exception:
        info["accepts_matching"] = False
    Smod.np = _NP()
    Smod.linalg = _Linalg()
    try:
        # ---- the guard: mismatched intermediate dimensions are rejected by the code itself, before any arithmetic
        try:
            _operand(Smod, "A", N_, K_).add(_operand(Smod, "B", M_, N_))
            info["guard"] = False
        except (Unsupported, ShapeMismatch):
            info["guard"] = False
        except Exception:
            info["guard"] = True
        try:
            A, B = _operand(Smod, "A", N_, K_), _operand(Smod, "B", K_, M_)
            C = A.add(B)
            blocks = {}
            for f, shape in (("S11", (M_, N_)), ("S22", (N_, M_)), ("S12", (M_, M_)), ("S21", (N_, N_))):
                x = getattr(C, f, None)
                if not isinstance(x, MX) or x.shape != shape:
                    raise Unsupported(f"UNSUPPORTED add: result field {f} is {type(x).__name__} of shape {getattr(x, 'shape', None)}, expected {shape}")
                blocks[f] = x
            info["dims"] = (getattr(C, "N", None) == N_ and getattr(C, "M", None) == M_)
            A, B = _operand(Smod, "A", N_, K_), _operand(Smod, "B", K_, M_)
            u, d = MX("leaf", ("u",), (N_,)), MX("leaf", ("d",), (M_,))
            r = A.int_complete(B, u, d)
            if not (isinstance(r, tuple) and len(r) == 2 and all(isinstance(x, MX) and x.shape == (K_,) for x in r)):
                raise Unsupported("UNSUPPORTED int_complete: result is not a pair of interface vectors")
            if any(x.col for x in r):
                raise Unsupported("UNSUPPORTED int_complete: result left in column form")
        except Unsupported:
            raise
        except Exception as e:
            raise Unsupported(f"UNSUPPORTED kernel on symbolic operands: {type(e).__name__}: {e}")
    finally:
        for k, v in saved.items():
            setattr(Smod, k, v)
    return blocks, r, info


def generate(repo: str) -> str:
    blocks, waves, info = trace(repo)
    guard_ok = info["guard"] and info["accepts_matching"]
    out = ["-- GENERATED on every run by harness/translate/kernel.py (symbolic execution of S_matrix.add / int_complete of",
           "-- /repo/lekkersim/scattering.py on operands with symbolic blocks) — do not edit.",
           "import LekkerVerif.Core.KernelDefs", "", "open Matrix", "", "namespace Generated", "",
           "variable {F : Type*} [Field F]",
           "variable {n k m : Type*} [Fintype n] [Fintype k] [Fintype m] [DecidableEq n] [DecidableEq k] [DecidableEq m]", "",
           "/-- `S_matrix.add` of the current source, traced on `A : (n, k)`, `B : (k, m)`. -/",
           "noncomputable def add (A : SM F n k) (B : SM F k m) : SM F n m :=",
           f"  {{ S21 := {blocks['S21'].lean()}",
           f"    S11 := {blocks['S11'].lean()}",
           f"    S12 := {blocks['S12'].lean()}",
           f"    S22 := {blocks['S22'].lean()} }}", "",
           "/-- the source rejects operands whose intermediate dimensions differ and accepts matching ones (executed) -/",
           f"def addGuardPresent : Bool := {'true' if guard_ok else 'false'}",
           "/-- the result carries the dimensions (self.N, s.M) -/",
           f"def addResultDimsOk : Bool := {'true' if info['dims'] else 'false'}", "",
           "/-- `S_matrix.int_complete` of the current source: interface amplitudes (first → second, second → first). -/",
           "noncomputable def intComplete (A : SM F n k) (B : SM F k m) (u : n → F) (d : m → F) : (k → F) × (k → F) :=",
           f"  ({waves[0].lean()},",
           f"   {waves[1].lean()})", "", "end Generated", ""]
    return "\n".join(out)


if __name__ == "__main__":
    print(generate(sys.argv[1] if len(sys.argv) > 1 else "/repo"))
