"""Translator (T): lekkersim/scattering.py  ->  lean/LekkerVerif/Generated/Kernel.lean

Regenerates, from the *current* source of `S_matrix.add` and `S_matrix.int_complete`,
Lean definitions over Mathlib matrices.  The subset accepted is deliberately small;
anything else raises `Unsupported` (reported as a broken obligation, never skipped).

Rules (one per construct):
  np.matmul(X, Y), X @ Y, np.dot(X, Y)   ->  X * Y     (matrix·matrix)  /  X *ᵥ y (matrix·vector)
  linalg.inv(X), np.linalg.inv(X)        ->  X⁻¹
  linalg.solve(X, y)                     ->  X⁻¹ *ᵥ y
  np.identity(obj.DIM[, complex]), np.eye ->  (1 : Matrix d d F)  with d the index type of obj.DIM
  X + Y, X - Y, -X                       ->  same
  obj.S11 / S12 / S21 / S22              ->  field of the operand
  np.expand_dims(v, -1), np.squeeze(v, -1) -> v   (column-vector bookkeeping)
  `E if len(v) > 0 else np.zeros(...)`   ->  E    (a product over an empty index type *is* zero)
  `if self.M != s.N: raise`              ->  recorded guard; the shared dimension becomes one index type
"""
from __future__ import annotations
import ast
import sys


class Unsupported(Exception):
    pass


def _unparse(e):
    return ast.unparse(e)


class KernelTranslator:
    def __init__(self, src: str, path: str = "lekkersim/scattering.py"):
        self.path = path
        self.tree = ast.parse(src)
        cls = [n for n in self.tree.body if isinstance(n, ast.ClassDef) and n.name == "S_matrix"]
        if not cls:
            raise Unsupported(f"{path}: class S_matrix not found")
        self.cls = cls[0]

    def _fn(self, name):
        fs = [n for n in self.cls.body if isinstance(n, ast.FunctionDef) and n.name == name]
        if not fs:
            raise Unsupported(f"{self.path}: S_matrix.{name} not found")
        return fs[0]

    # --- expressions -----------------------------------------------------
    def expr(self, e, env, objs, dims):
        """returns (lean_string, kind) with kind in {'M','V'}"""
        def U(msg=None):
            return Unsupported(f"UNSUPPORTED {self.path}:{getattr(e, 'lineno', '?')}: {msg or _unparse(e)}")
        if isinstance(e, ast.Call):
            f = _unparse(e.func)
            if f in ("np.matmul", "np.dot", "numpy.matmul"):
                if len(e.args) != 2 or e.keywords:
                    raise U()
                a, ka = self.expr(e.args[0], env, objs, dims)
                b, kb = self.expr(e.args[1], env, objs, dims)
                if ka != "M":
                    raise U("left operand of matmul is not a matrix")
                return (f"({a} * {b})", "M") if kb == "M" else (f"({a} *ᵥ {b})", "V")
            if f in ("linalg.inv", "np.linalg.inv", "numpy.linalg.inv"):
                if len(e.args) != 1 or e.keywords:
                    raise U()
                a, ka = self.expr(e.args[0], env, objs, dims)
                if ka != "M":
                    raise U()
                return f"({a})⁻¹", "M"
            if f in ("linalg.solve", "np.linalg.solve"):
                if len(e.args) != 2 or e.keywords:
                    raise U()
                a, ka = self.expr(e.args[0], env, objs, dims)
                b, kb = self.expr(e.args[1], env, objs, dims)
                if ka != "M" or kb != "V":
                    raise U("linalg.solve(matrix, vector) expected")
                return f"(({a})⁻¹ *ᵥ {b})", "V"
            if f in ("np.identity", "np.eye"):
                if not e.args:
                    raise U()
                d = e.args[0]
                if not (isinstance(d, ast.Attribute) and isinstance(d.value, ast.Name) and (d.value.id, d.attr) in dims):
                    raise U("identity of unknown dimension")
                for extra in e.args[1:]:
                    if _unparse(extra) != "complex":
                        raise U()
                t = dims[(d.value.id, d.attr)]
                return f"(1 : Matrix {t} {t} F)", "M"
            if f in ("np.expand_dims", "np.squeeze"):
                if len(e.args) != 2 or _unparse(e.args[1]) != "-1":
                    raise U()
                a, ka = self.expr(e.args[0], env, objs, dims)
                if ka != "V":
                    raise U()
                return a, "V"
            raise U()
        if isinstance(e, ast.IfExp):
            # E if len(v) > 0 else np.zeros(...)
            t = e.test
            ok = (isinstance(t, ast.Compare) and len(t.ops) == 1 and isinstance(t.ops[0], ast.Gt)
                  and _unparse(t.left).startswith("len(") and _unparse(t.comparators[0]) == "0"
                  and isinstance(e.orelse, ast.Call) and _unparse(e.orelse.func) == "np.zeros")
            if not ok:
                raise U()
            return self.expr(e.body, env, objs, dims)
        if isinstance(e, ast.BinOp):
            if isinstance(e.op, ast.MatMult):
                a, ka = self.expr(e.left, env, objs, dims)
                b, kb = self.expr(e.right, env, objs, dims)
                if ka != "M":
                    raise U()
                return (f"({a} * {b})", "M") if kb == "M" else (f"({a} *ᵥ {b})", "V")
            op = {ast.Add: "+", ast.Sub: "-"}.get(type(e.op))
            if op is None:
                raise U()
            a, ka = self.expr(e.left, env, objs, dims)
            b, kb = self.expr(e.right, env, objs, dims)
            if ka != kb:
                raise U("adding matrix and vector")
            return f"({a} {op} {b})", ka
        if isinstance(e, ast.UnaryOp) and isinstance(e.op, ast.USub):
            a, ka = self.expr(e.operand, env, objs, dims)
            return f"(-{a})", ka
        if isinstance(e, ast.Attribute) and isinstance(e.value, ast.Name) and e.value.id in objs:
            if e.attr in ("S11", "S12", "S21", "S22"):
                return f"{objs[e.value.id]}.{e.attr}", "M"
            raise U()
        if isinstance(e, ast.Name) and e.id in env:
            return env[e.id]
        raise U()

    # --- S_matrix.add ------------------------------------------------------
    def translate_add(self):
        fn = self._fn("add")
        args = [a.arg for a in fn.args.args]
        if len(args) != 2:
            raise Unsupported(f"UNSUPPORTED {self.path}:{fn.lineno}: add signature")
        selfn, othern = args
        objs = {selfn: "A", othern: "B"}
        dims = {(selfn, "N"): "n", (selfn, "M"): "k", (othern, "N"): "k", (othern, "M"): "m"}
        lets, env, fields = [], {}, {}
        guard = None
        res = None
        resdims = None
        for st in fn.body:
            if isinstance(st, ast.Expr) and isinstance(st.value, ast.Constant):
                continue
            if isinstance(st, ast.If):
                if not (len(st.body) == 1 and isinstance(st.body[0], ast.Raise) and not st.orelse):
                    raise Unsupported(f"UNSUPPORTED {self.path}:{st.lineno}: {_unparse(st.test)}")
                guard = _unparse(st.test)
                continue
            if isinstance(st, ast.Assign) and len(st.targets) == 1:
                t = st.targets[0]
                if isinstance(t, ast.Name):
                    if isinstance(st.value, ast.Call) and _unparse(st.value.func) == "S_matrix":
                        res = t.id
                        resdims = [_unparse(a) for a in st.value.args]
                        continue
                    s, kind = self.expr(st.value, env, objs, dims)
                    lets.append((t.id, s))
                    env[t.id] = (t.id, kind)
                    continue
                if isinstance(t, ast.Attribute) and isinstance(t.value, ast.Name) and t.value.id == res:
                    s, kind = self.expr(st.value, env, objs, dims)
                    if kind != "M":
                        raise Unsupported(f"UNSUPPORTED {self.path}:{st.lineno}: field is not a matrix")
                    fields[t.attr] = s
                    continue
            if isinstance(st, ast.Return):
                if not (isinstance(st.value, ast.Name) and st.value.id == res):
                    raise Unsupported(f"UNSUPPORTED {self.path}:{st.lineno}: return")
                continue
            raise Unsupported(f"UNSUPPORTED {self.path}:{st.lineno}: {_unparse(st)[:60]}")
        if set(fields) != {"S11", "S12", "S21", "S22"}:
            raise Unsupported(f"UNSUPPORTED {self.path}:{fn.lineno}: result fields {sorted(fields)}")
        guard_ok = guard is not None and guard.replace(" ", "") in (
            f"{selfn}.M!={othern}.N", f"{othern}.N!={selfn}.M")
        dims_ok = resdims == [f"{selfn}.N", f"{othern}.M"]
        out = []
        out.append(f"/-- `S_matrix.add` as written in {self.path}:{fn.lineno}.  Guard in source: `{guard}`;"
                   f" result dimensions in source: `{resdims}`. -/")
        out.append("noncomputable def add (A : SM F n k) (B : SM F k m) : SM F n m :=")
        for nm, v in lets:
            out.append(f"  let {nm} := {v}")
        out.append("  { " + "\n    ".join(f"{k} := {fields[k]}" for k in ("S21", "S11", "S12", "S22")) + " }")
        out.append("")
        out.append("/-- the source rejects operands whose intermediate dimensions differ (`if self.M != s.N: raise`) -/")
        out.append(f"def addGuardPresent : Bool := {'true' if guard_ok else 'false'}")
        out.append("/-- the result is declared with dimensions (self.N, s.M) -/")
        out.append(f"def addResultDimsOk : Bool := {'true' if dims_ok else 'false'}")
        return "\n".join(out)

    # --- S_matrix.int_complete ---------------------------------------------
    def translate_int_complete(self):
        fn = self._fn("int_complete")
        args = [a.arg for a in fn.args.args]
        if len(args) != 4:
            raise Unsupported(f"UNSUPPORTED {self.path}:{fn.lineno}: int_complete signature")
        selfn, othern, un, dn = args
        objs = {selfn: "A", othern: "B"}
        dims = {(selfn, "N"): "n", (selfn, "M"): "k", (othern, "N"): "k", (othern, "M"): "m"}
        env = {un: ("u", "V"), dn: ("d", "V")}
        lets = []
        ret = None
        for st in fn.body:
            if isinstance(st, ast.Expr) and isinstance(st.value, ast.Constant):
                continue
            if isinstance(st, ast.Assign) and len(st.targets) == 1 and isinstance(st.targets[0], ast.Name):
                s, kind = self.expr(st.value, env, objs, dims)
                nm = st.targets[0].id
                lean_nm = nm + "'" if nm in ("do",) else nm   # `do` is a Lean keyword
                lets.append((lean_nm, s, kind))
                env[nm] = (lean_nm, kind)
                continue
            if isinstance(st, ast.Return):
                v = st.value
                if not (isinstance(v, ast.Tuple) and len(v.elts) == 2):
                    raise Unsupported(f"UNSUPPORTED {self.path}:{st.lineno}: return")
                a, ka = self.expr(v.elts[0], env, objs, dims)
                b, kb = self.expr(v.elts[1], env, objs, dims)
                if ka != "V" or kb != "V":
                    raise Unsupported(f"UNSUPPORTED {self.path}:{st.lineno}: return kinds")
                ret = (a, b)
                continue
            raise Unsupported(f"UNSUPPORTED {self.path}:{st.lineno}: {_unparse(st)[:60]}")
        if ret is None:
            raise Unsupported(f"UNSUPPORTED {self.path}:{fn.lineno}: no return")
        out = []
        out.append(f"/-- `S_matrix.int_complete` as written in {self.path}:{fn.lineno}: interface amplitudes"
                   " (first → second, second → first). -/")
        out.append("noncomputable def intComplete (A : SM F n k) (B : SM F k m) (u : n → F) (d : m → F) :"
                   " (k → F) × (k → F) :=")
        for nm, v, kind in lets:
            ty = "Matrix k k F" if kind == "M" else "k → F"
            out.append(f"  let {nm} : {ty} := {v}")
        out.append(f"  ({ret[0]}, {ret[1]})")
        return "\n".join(out)

    def render(self):
        parts = [
            "-- GENERATED on every run by harness/translate/kernel.py from /repo/" + self.path + " — do not edit.",
            "import LekkerVerif.Core.KernelDefs",
            "",
            "open Matrix",
            "",
            "namespace Generated",
            "",
            "variable {F : Type*} [Field F]",
            "variable {n k m : Type*} [Fintype n] [Fintype k] [Fintype m] [DecidableEq n] [DecidableEq k] [DecidableEq m]",
            "",
            self.translate_add(),
            "",
            self.translate_int_complete(),
            "",
            "end Generated",
            "",
        ]
        return "\n".join(parts)


def generate(repo: str) -> str:
    path = "lekkersim/scattering.py"
    src = open(f"{repo}/{path}").read()
    return KernelTranslator(src, path).render()


if __name__ == "__main__":
    print(generate(sys.argv[1] if len(sys.argv) > 1 else "/repo"))
