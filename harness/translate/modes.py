"""Translator (T): `Model.expand_mode` + `_expand_S` + `diag_blocks`  ->  Generated/Modes.lean

A two-pin model whose matrix holds the symbols `S i j` (pins `p -> 1`, `q -> 0`: a non-trivial index map) is expanded to the
three modes `m0, m1, m2` by the *current* source, and its `create_S()` is executed with `np` bound to the symbolic stand-in of
`symtrace.py`.  Emitted: the pin -> index table of the expanded model and its 6 x 6 matrix as terms in the symbols.  The theorems
`C13_src_expand` / `C13_src_index` identify both with the model (`Modes.diagBlocks`, `Modes.expandIndex`) at this instance.
"""
from __future__ import annotations

import sys

from .symtrace import E, SymMat, NP, Unsupported
from .blocks import _model_module

MODES = ["m0", "m1", "m2"]
PINS = [("p", 1), ("q", 0)]


def trace(repo):
    M = _model_module(repo)
    real_np = M.np
    M.np = NP
    try:
        try:
            S = SymMat([[E.csym(f"(S {i} {j})") for j in range(2)] for i in range(2)])
            m = M.Model(pin_dic={M.Pin(b): i for b, i in PINS}, Smatrix=S)
            m.expand_mode(list(MODES))
            X = m.create_S()
            X2 = m.create_S()                 # a second evaluation must give the same matrix (no drift of self.N)
            table = [((p.basename, p.mode_name), i) for p, i in m.pin_dic.items()]
            n_after = m.N
        except Unsupported:
            raise
        except Exception as e:
            raise Unsupported(f"UNSUPPORTED expand_mode on a symbolic model: {type(e).__name__}: {e}")
    finally:
        M.np = real_np
    if not isinstance(X, SymMat) or X.shape != (6, 6) or not isinstance(X2, SymMat) or X2.rows != X.rows or n_after != 6:
        raise Unsupported(f"UNSUPPORTED expand_mode: expanded matrix has shape {getattr(X, 'shape', None)}, N = {n_after}, or is not reproducible")
    return table, X


def generate(repo: str) -> str:
    table, X = trace(repo)

    def ent(e):
        if e.op == "rat" and e.args[0] == 0:
            return "0"
        if e.op == "csym":
            return e.args[0]
        raise Unsupported(f"UNSUPPORTED expand_mode: entry {e.lean()} is neither a symbol nor zero")
    rows = ",\n    ".join("![" + ", ".join(ent(e) for e in r) + "]" for r in X.rows)
    q = lambda s: '"' + str(s) + '"'
    out = ["-- GENERATED on every run by harness/translate/modes.py (symbolic execution of Model.expand_mode / _expand_S / diag_blocks of",
           "-- /repo/lekkersim/model.py) — do not edit.",
           "import Mathlib.Data.Fin.VecNotation", "", "namespace Generated.Modes", "",
           "/-- pin -> matrix index of the single-mode model that was expanded -/",
           "def singleIdx : List (String × Nat) := [" + ", ".join(f"({q(b)}, {i})" for b, i in PINS) + "]",
           "/-- the mode list given to `expand_mode`, with positions -/",
           "def modeNumber : List (String × Nat) := [" + ", ".join(f"({q(m)}, {k})" for k, m in enumerate(MODES)) + "]",
           "/-- (basename, mode) -> matrix index of the expanded model, as found in its `pin_dic` -/",
           "def expandedIdx : List ((String × String) × Nat) := [" + ", ".join(f"(({q(b)}, {q(m)}), {i})" for (b, m), i in table) + "]", "",
           "/-- the matrix `create_S()` of the expanded model returns, in the symbols `S i j` of the single-mode matrix -/",
           "def expandedS {F : Type} [Zero F] (S : Fin 2 → Fin 2 → F) : Fin 6 → Fin 6 → F :=",
           f"  ![{rows}]", "", "end Generated.Modes", ""]
    return "\n".join(out)


if __name__ == "__main__":
    print(generate(sys.argv[1] if len(sys.argv) > 1 else "/repo"))
