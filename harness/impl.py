"""Drive the real lekkersim (imported from /repo's working tree) on generated cases; canonicalise."""
from __future__ import annotations

import numpy as np

import gen


def lk():
    import lekkersim
    return lekkersim


def build_solver(circ, comp_order=None, link_order=None, flips=None, exp_order=None, name=None):
    """Build a real Solver for a circuit description; returns (solver, structures)."""
    L = lk()
    Pin = L.Pin
    ncomp = len(circ["comps"])
    comp_order = list(range(ncomp)) if comp_order is None else comp_order
    sts = [None] * ncomp
    for c in range(ncomp):
        comp = circ["comps"][c]
        pin_dic = {Pin(p): i for p, i in zip(comp["pins"], comp["idx"])}
        model = L.Model(pin_dic=pin_dic, Smatrix=gen.mat_np(comp["S"], len(comp["pins"]), len(comp["pins"])))
        sts[c] = L.Structure(model=model)
    sol = L.Solver(name=name)
    for c in comp_order:
        sol.add_structure(sts[c])
    links = list(circ["links"])
    link_order = list(range(len(links))) if link_order is None else link_order
    for k in link_order:
        a, p, b, q = links[k]
        if flips is not None and flips[k]:
            a, p, b, q = b, q, a, p
        sol.connect(sts[a], p, sts[b], q)
    exps = list(circ["exposed"])
    exp_order = list(range(len(exps))) if exp_order is None else exp_order
    for k in exp_order:
        nm, c, p = exps[k]
        sol.map_pins({Pin(nm): (sts[c], Pin(p))})
    return sol, sts


def solved_matrix(mod, names):
    """exposed-name addressed matrix (ns, n, n) of a SolvedModel"""
    L = lk()
    idx = [mod.pin_dic[L.Pin(n)] for n in names]
    S = np.asarray(mod.S)
    return S[:, idx, :][:, :, idx]


def outcome_class(exc) -> str:
    """map an exception to a small enum (never compare messages)"""
    n = type(exc).__name__
    if n == "LinAlgError":
        return "singular"
    if n in ("KeyError",):
        return "keyError"
    if n in ("ValueError",):
        return "valueError"
    if n in ("TypeError", "AttributeError", "NameError", "IndexError", "UnboundLocalError"):
        return "crash:" + n
    return "exception:" + n


def affine_model_class():
    """A parametric probe block: S(p) = S0 + p*S1 (fresh array per call).  Defined lazily so that
    lekkersim is imported from /repo first."""
    L = lk()
    from copy import deepcopy

    class AffineModel(L.Model):
        def __init__(self, pin_names, idx, S0, S1, pname="p", default=0.0):
            self.pin_dic = {L.Pin(p): i for p, i in zip(pin_names, idx)}
            self.N = len(pin_names)
            self.S0 = np.array(S0, complex)
            self.S1 = np.array(S1, complex)
            self.pname = pname
            self.param_dic = {pname: default}
            self.default_params = deepcopy(self.param_dic)
            self.S = self.S0 + default * self.S1
            self.update_pins()

        def create_S(self):
            return self.S0 + self.param_dic[self.pname] * self.S1

        def __str__(self):
            return f"AffineModel({self.pname}) (id={id(self)})"

    return AffineModel


def build_param_solver(pcirc, name=None):
    """pcirc: circuit whose comps carry S0, S1, param (name) and default; returns (solver, structures)"""
    L = lk()
    AM = affine_model_class()
    sts = []
    for comp in pcirc["comps"]:
        n = len(comp["pins"])
        if comp.get("fixed"):
            m = L.Model(pin_dic={L.Pin(p): i for p, i in zip(comp["pins"], comp["idx"])}, Smatrix=gen.mat_np(comp["S0"], n, n))
        else:
            m = AM(comp["pins"], comp["idx"], gen.mat_np(comp["S0"], n, n), gen.mat_np(comp["S1"], n, n),
                   pname=comp["param"], default=float(comp.get("default", 0)))
        sts.append(L.Structure(model=m))
    sol = L.Solver(name=name)
    for st in sts:
        sol.add_structure(st)
    for (a, p, b, q) in pcirc["links"]:
        sol.connect(sts[a], p, sts[b], q)
    for (nm, c, p) in pcirc["exposed"]:
        sol.map_pins({L.Pin(nm): (sts[c], L.Pin(p))})
    return sol, sts


_CLASSES = {}


def tunable_mirror_class():
    """lossless tunable reflector: S(t, g) = [[r, i*tau*e], [i*tau*conj(e), r]], r = 2t/(1+t^2), tau = (1-t^2)/(1+t^2),
    e = ((1-g^2) + 2ig)/(1+g^2): reciprocal exactly when g = 0"""
    if "tm" in _CLASSES:
        return _CLASSES["tm"]
    L = lk()
    from copy import deepcopy

    class TunableMirror(L.Model):
        def __init__(self, pin_names, pname="t", default=0.0, gname="g"):
            self.pin_dic = {L.Pin(pin_names[0]): 0, L.Pin(pin_names[1]): 1}
            self.N = 2
            self.pname = pname
            self.gname = gname
            self.param_dic = {pname: default, gname: 0.0}
            self.default_params = deepcopy(self.param_dic)
            self.S = np.identity(2, complex)
            self.update_pins()

        def create_S(self):
            t = self.param_dic[self.pname]
            r = 2 * t / (1 + t * t)
            tau = (1 - t * t) / (1 + t * t)
            g = self.param_dic[self.gname]
            e = ((1 - g * g) + 2j * g) / (1 + g * g)
            return np.array([[r, 1j * tau * e], [1j * tau * np.conj(e), r]], complex)

        def __str__(self):
            return f"TunableMirror (id={id(self)})"

    _CLASSES["tm"] = TunableMirror
    return TunableMirror
