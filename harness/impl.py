"""Drive the real lekkersim (imported from /repo's working tree) on generated cases; canonicalise."""
from __future__ import annotations

import numpy as np

import gen


def lk():
    import lekkersim
    return lekkersim


def build_solver(circ, comp_order=None, link_order=None, flips=None, exp_order=None, name=None):
    """Build a real Solver for a circuit description; returns (solver, structures)."""
    L = lk()
    Pin = L.Pin
    ncomp = len(circ["comps"])
    comp_order = list(range(ncomp)) if comp_order is None else comp_order
    sts = [None] * ncomp
    for c in range(ncomp):
        comp = circ["comps"][c]
        pin_dic = {Pin(p): i for p, i in zip(comp["pins"], comp["idx"])}
        model = L.Model(pin_dic=pin_dic, Smatrix=gen.mat_np(comp["S"], len(comp["pins"]), len(comp["pins"])))
        sts[c] = L.Structure(model=model)
    sol = L.Solver(name=name)
    for c in comp_order:
        sol.add_structure(sts[c])
    links = list(circ["links"])
    link_order = list(range(len(links))) if link_order is None else link_order
    for k in link_order:
        a, p, b, q = links[k]
        if flips is not None and flips[k]:
            a, p, b, q = b, q, a, p
        sol.connect(sts[a], p, sts[b], q)
    exps = list(circ["exposed"])
    exp_order = list(range(len(exps))) if exp_order is None else exp_order
    for k in exp_order:
        nm, c, p = exps[k]
        sol.map_pins({Pin(nm): (sts[c], Pin(p))})
    return sol, sts


def solved_matrix(mod, names):
    """exposed-name addressed matrix (ns, n, n) of a SolvedModel"""
    L = lk()
    idx = [mod.pin_dic[L.Pin(n)] for n in names]
    S = np.asarray(mod.S)
    return S[:, idx, :][:, :, idx]


def outcome_class(exc) -> str:
    """map an exception to a small enum (never compare messages)"""
    n = type(exc).__name__
    if n == "LinAlgError":
        return "singular"
    if n in ("KeyError",):
        return "keyError"
    if n in ("ValueError",):
        return "valueError"
    if n in ("TypeError", "AttributeError", "NameError", "IndexError", "UnboundLocalError"):
        return "crash:" + n
    return "exception:" + n
