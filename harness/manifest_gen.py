"""Writes MANIFEST.json from the per-property table below (kept in one place so it stays valid)."""
import json
from pathlib import Path

VERIF = Path(__file__).resolve().parents[1]
OBLIG = json.loads((VERIF / "obligations.json").read_text())
PROPS = [json.loads(l) for l in (VERIF / "properties.jsonl").read_text().splitlines() if l.strip()]

# per claimed property: (technique, level text, level note, design ref)
CLAIMS = json.loads((VERIF / "harness" / "claims.json").read_text())

checks = []
na = []
for p in PROPS:
    pid = p["id"]
    if pid in CLAIMS and pid in OBLIG:
        c = CLAIMS[pid]
        checks.append({
            "property_id": pid,
            "quick_cmd": f"./check {pid} --tier quick",
            "thorough_cmd": f"./check {pid} --tier thorough",
            "evidence_file": f"evidence/{pid}.json",
            "replay_cmd_template": f"./check {pid} --replay {{path}}",
            "engine": "lean4-proof+correspondence",
            "level_claimed": {"category": "proof", "text": c["text"], "design_ref": c.get("design_ref", "DESIGN.md section 5 " + pid)},
            "level_note": c["note"],
            "technique": c["technique"],
        })
    else:
        na.append({"property_id": pid, "reason": CLAIMS.get(pid, {}).get("na_reason", "check not built yet in this round (planned in DESIGN.md section 5); not claimed")})

manifest = {
    "version": 1,
    "setup_cmd": "./check --setup",
    "hooks": {
        "guard": "LEKKERSIM_VERIF",
        "enable": "environment variable LEKKERSIM_VERIF=1 (set by ./check); the harness installs lekkersim.sol._VERIF_MERGE_HOOK",
        "baseline_off_cmd": "cd /repo && env -u LEKKERSIM_VERIF /venv/bin/python -m pytest -ra -q -p no:cacheprovider --timeout=900 --continue-on-collection-errors",
        "source_commits": ["acfe795"],
        "add_only": True,
    },
    "engines": [
        {"name": "lean4-proof+correspondence", "path": "lean/ (Lean 4 project: model, theorems), harness/ (translator, correspondence, oracles), check",
         "serves_properties": [c["property_id"] for c in checks],
         "kind_free_text": "machine-checked Lean 4 theorems about a model of the code; the model is tied to /repo on every run (a) by translators that execute the current source on symbolic operands and print the recorded terms as Lean definitions (kernel, library blocks, read-out helpers, mode expansion, InPulse export/import) plus finite facts established by instrumented probes, each validated numerically against the running code, and (b) by differential correspondence of the executable Lean model (native driver: elimination loop, hierarchy, flatten, split, parameters, sweeps, wiring, monitors) against the real package in-process; independent numpy oracles search for failing inputs"}
    ],
    "checks": checks,
    "not_applicable": na,
    "notes": "See DESIGN.md. Exit codes: 0 held, 1 VIOLATION, 2 infrastructure failure.",
}
(VERIF / "MANIFEST.json").write_text(json.dumps(manifest, indent=1))
print(f"claimed {len(checks)}, not claimed {len(na)}")
