"""Anchor fingerprints: has the source a property is anchored in changed since the tree the machinery was last pinned to?

`anchors.pinned.json` (committed; written by `tools/pin_anchors.py`, never at run time) lists, per property, the functions
named by the anchors of `properties.jsonl` (line ranges resolved to qualified function names on the base commit) with the
hash of each function's normalised AST (docstrings dropped; comments and layout do not reach the AST) on the pinned tree,
and the hash of every anchored file.  A changed fingerprint never raises an alarm; it makes the check search harder
(larger case budget), because a changed source is exactly when a sampled tie is weakest.
"""
from __future__ import annotations

import ast
import hashlib
import json
from pathlib import Path

from common import VERIF, REPO

PINNED = VERIF / "anchors.pinned.json"


def _strip_docstrings(node):
    for n in ast.walk(node):
        if isinstance(n, (ast.FunctionDef, ast.AsyncFunctionDef, ast.ClassDef, ast.Module)):
            if n.body and isinstance(n.body[0], ast.Expr) and isinstance(getattr(n.body[0], "value", None), ast.Constant) \
                    and isinstance(n.body[0].value.value, str):
                n.body = n.body[1:] or [ast.Pass()]
    return node


def _h(node) -> str:
    return hashlib.sha256(ast.dump(_strip_docstrings(node), include_attributes=False).encode()).hexdigest()[:16]


def functions(tree):
    """{qualified name: node} for module-level functions, classes' methods (one level)"""
    out = {}
    for n in tree.body:
        if isinstance(n, (ast.FunctionDef, ast.AsyncFunctionDef)):
            out[n.name] = n
        elif isinstance(n, ast.ClassDef):
            for m in n.body:
                if isinstance(m, (ast.FunctionDef, ast.AsyncFunctionDef)):
                    out[f"{n.name}.{m.name}"] = m
    return out


def hashes_of(repo: Path, files):
    """({file: hash}, {"file::qualname": hash}) of the current tree"""
    fh, gh = {}, {}
    for f in sorted(set(files)):
        p = Path(repo) / f
        if not p.exists():
            fh[f] = "missing"
            continue
        try:
            tree = ast.parse(p.read_text())
        except SyntaxError:
            fh[f] = "syntax-error"
            continue
        for q, node in functions(tree).items():
            gh[f"{f}::{q}"] = _h(node)
        fh[f] = _h(tree)
    return fh, gh


def status(pid: str):
    """{"pinned": bool, "functions_changed": [...], "files_changed": [...]}"""
    if not PINNED.exists():
        return {"pinned": False, "functions_changed": [], "files_changed": []}
    pin = json.loads(PINNED.read_text()).get(pid)
    if not pin:
        return {"pinned": False, "functions_changed": [], "files_changed": []}
    fh, gh = hashes_of(REPO, pin["files"].keys())
    fchanged = sorted(k for k, v in pin["functions"].items() if gh.get(k) != v)
    files = sorted(k for k, v in pin["files"].items() if fh.get(k) != v)
    return {"pinned": True, "functions_changed": fchanged, "files_changed": files}
