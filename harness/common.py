"""Shared infrastructure of the /verif check harness: context, counters, findings, evidence."""
from __future__ import annotations

import hashlib
import json
import os
import random
import sys
import time
from collections import Counter
from fractions import Fraction
from pathlib import Path

VERIF = Path(__file__).resolve().parents[1]
REPO = Path(os.environ.get("VERIF_REPO", "/repo"))
LEAN = VERIF / "lean"
CACHE = VERIF / ".cache"
WORK = VERIF / ".work"

ALLOWED_AXIOMS = {"propext", "Classical.choice", "Quot.sound"}


def setup_impl_path():
    """Import lekkersim from /repo's working tree (refuse anything else)."""
    os.environ["LEKKERSIM_VERIF"] = "1"
    os.environ.setdefault("MPLBACKEND", "Agg")
    if str(REPO) not in sys.path:
        sys.path.insert(0, str(REPO))
    import logging
    import lekkersim  # noqa
    p = Path(lekkersim.__file__).resolve()
    if REPO.resolve() not in p.parents:
        raise RuntimeError(f"lekkersim imported from {p}, not from {REPO}")
    logging.getLogger("lekkersim").setLevel(logging.CRITICAL + 1)
    try:
        lekkersim.logger.setLevel(logging.CRITICAL + 1)
        lekkersim.logger.disabled = True
    except Exception:
        pass
    logging.disable(logging.CRITICAL)
    return lekkersim


def canon(obj):
    """canonical JSON-able form (Fractions -> 'p/q', complex -> [re, im], tuples -> lists)"""
    if isinstance(obj, Fraction):
        return f"{obj.numerator}/{obj.denominator}"
    if isinstance(obj, complex):
        return [obj.real, obj.imag]
    if isinstance(obj, dict):
        return {str(k): canon(v) for k, v in obj.items()}
    if isinstance(obj, (list, tuple)):
        return [canon(v) for v in obj]
    if isinstance(obj, (set, frozenset)):
        return sorted((canon(v) for v in obj), key=lambda x: json.dumps(x, sort_keys=True))
    try:
        import numpy as np
        if isinstance(obj, np.ndarray):
            return canon(obj.tolist())
        if isinstance(obj, np.generic):
            return canon(obj.item())
    except Exception:
        pass
    if isinstance(obj, (str, int, float, bool)) or obj is None:
        return obj
    return repr(obj)


def digest(obj) -> str:
    return hashlib.sha256(json.dumps(canon(obj), sort_keys=True).encode()).hexdigest()


class Findings:
    """known_findings.json — committed, never written at run time."""

    def __init__(self):
        p = VERIF / "known_findings.json"
        self.entries = json.loads(p.read_text()) if p.exists() else []

    def known(self, pid, signature):
        for e in self.entries:
            if e.get("property") == pid and e.get("status") == "known" and e.get("signature") == signature:
                return e
        return None


class Ctx:
    def __init__(self, pid: str, tier: str, seed: int):
        self.pid = pid
        self.tier = tier
        self.seed = seed
        self.rng = random.Random(f"{pid}:{seed}")
        self.scale = 1           # 10 when a proof obligation / correspondence is broken (widened search)
        self.evaluations = 0
        self.distinct = set()
        self.samples = []
        self.dist = Counter()
        self.violations = []     # dicts: signature, what, replay
        self.disagreements = []  # model-vs-implementation differences (not by themselves violations)
        self.assumption_monitors = Counter()
        self.notes = []
        self.t0 = time.time()
        self.deadline = None
        self._driver = None
        self.findings = Findings()
        self.max_samples = 3
        self.extra = {}

    # ---- budgets -------------------------------------------------------
    def budget(self, quick: int, thorough: int) -> int:
        return (quick if self.tier == "quick" else thorough) * self.scale

    def subrng(self, name: str) -> random.Random:
        return random.Random(f"{self.pid}:{self.seed}:{name}:{self.scale}")

    def time_left(self) -> float:
        return 1e9 if self.deadline is None else self.deadline - time.time()

    # ---- recording -----------------------------------------------------
    def case(self, key, nontrivial: bool = True, tags=(), sample=None):
        self.evaluations += 1
        if nontrivial:
            self.distinct.add(digest(key))
        for t in tags:
            self.dist[t] += 1
        if sample is not None and len(self.samples) < self.max_samples:
            self.samples.append(canon(sample))

    def tag(self, *tags):
        for t in tags:
            self.dist[t] += 1

    def violation(self, signature: str, what: str, replay: dict):
        # keep the first (smallest if shrunk by caller) replay per signature
        for v in self.violations:
            if v["signature"] == signature:
                v["count"] += 1
                return
        self.violations.append({"signature": signature, "what": what, "replay": canon(replay), "count": 1})

    def disagreement(self, name: str, what: str, replay: dict):
        if len(self.disagreements) < 20:
            self.disagreements.append({"correspondence": name, "what": what, "replay": canon(replay)})
        self.dist["disagreement:" + name] += 1

    # ---- Lean driver ---------------------------------------------------
    @property
    def driver(self):
        if self._driver is None:
            from driver import Driver
            self._driver = Driver()
        return self._driver

    def close(self):
        if self._driver is not None:
            self._driver.close()
            self._driver = None


def frac_str(x: Fraction) -> str:
    return f"{x.numerator}/{x.denominator}"


def cfrac_json(z):
    """(Fraction re, Fraction im) -> ["p/q","p/q"]"""
    return [frac_str(z[0]), frac_str(z[1])]


def parse_cfrac(j):
    return (Fraction(j[0]), Fraction(j[1]))


def cfrac_to_complex(z) -> complex:
    return complex(float(z[0]), float(z[1]))


def write_replay(pid: str, data: dict) -> Path:
    d = VERIF / "replays"
    d.mkdir(exist_ok=True)
    data = dict(data)
    data.setdefault("hashseed", os.environ.get("PYTHONHASHSEED", "0"))
    h = digest(data)[:12]
    p = d / f"{pid}-{h}.json"
    p.write_text(json.dumps(canon(data), indent=1, sort_keys=True))
    return p
