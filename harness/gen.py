"""Generators: dyadic Gaussian-rational matrices (exact in complex128) and random circuits."""
from __future__ import annotations

from fractions import Fraction

import numpy as np

from common import frac_str


def dyadic(rng, bits=4, lo=-1.0, hi=1.0):
    den = 1 << bits
    return Fraction(rng.randint(int(lo * den), int(hi * den)), den)


def cdyadic(rng, bits=4, mag=1.0, pzero=0.15):
    if rng.random() < pzero:
        return (Fraction(0), Fraction(0))
    return (dyadic(rng, bits, -mag, mag), dyadic(rng, bits, -mag, mag))


def cmat(rng, r, c, bits=4, mag=1.0, pzero=0.15):
    """r×c matrix of dyadic Gaussian rationals as a list of rows of (re, im) Fractions"""
    return [[cdyadic(rng, bits, mag, pzero) for _ in range(c)] for _ in range(r)]


def mat_np(m, r=None, c=None):
    r = len(m) if r is None else r
    c = (len(m[0]) if m else 0) if c is None else c
    a = np.zeros((r, c), complex)
    for i in range(r):
        for j in range(c):
            a[i, j] = complex(float(m[i][j][0]), float(m[i][j][1]))
    return a


def mat_json(m):
    """flat row-major list of ["p/q","p/q"]"""
    return [[frac_str(z[0]), frac_str(z[1])] for row in m for z in row]


def json_mat_np(flat, r, c):
    a = np.zeros((r, c), complex)
    for k, z in enumerate(flat):
        a[k // c, k % c] = complex(float(Fraction(z[0])), float(Fraction(z[1])))
    return a


def contractive(rng, n, bits=5, target=0.8, kind="general"):
    """n×n dyadic complex matrix scaled (by a power of two) so that its spectral norm is <= target.

    kinds: general | symmetric | reflectionless (zero diagonal) | sparse
    """
    if n == 0:
        return []
    m = cmat(rng, n, n, bits=bits, mag=1.0, pzero=0.35 if kind == "sparse" else 0.1)
    if kind == "symmetric":
        for i in range(n):
            for j in range(i):
                m[i][j] = m[j][i]
    if kind == "reflectionless":
        for i in range(n):
            m[i][i] = (Fraction(0), Fraction(0))
    a = mat_np(m)
    s = np.linalg.norm(a, 2) if n else 0.0
    k = 0
    while s / (1 << k) > target:
        k += 1
    if k:
        sc = Fraction(1, 1 << k)
        m = [[(z[0] * sc, z[1] * sc) for z in row] for row in m]
    return m


def rational_unitary(rng, n, bits=2):
    """exact rational unitary via the Cayley transform U = (1-K)(1+K)^-1 of a skew-Hermitian dyadic K.
    Returned as a matrix of (Fraction, Fraction); computed exactly with Fractions."""
    if n == 0:
        return []
    den = 1 << bits
    K = [[(Fraction(0), Fraction(0)) for _ in range(n)] for _ in range(n)]
    for i in range(n):
        K[i][i] = (Fraction(0), Fraction(rng.randint(-den, den), den))
        for j in range(i):
            re = Fraction(rng.randint(-den, den), den)
            im = Fraction(rng.randint(-den, den), den)
            K[i][j] = (re, im)
            K[j][i] = (-re, im)
    one = lambda i, j: (Fraction(1 if i == j else 0), Fraction(0))
    A = [[csub(one(i, j), K[i][j]) for j in range(n)] for i in range(n)]
    B = [[cadd(one(i, j), K[i][j]) for j in range(n)] for i in range(n)]
    Binv = cinv(B)
    return cmatmul(A, Binv)


# --- exact complex-rational helpers (tuples of Fractions) -----------------------
def cadd(a, b):
    return (a[0] + b[0], a[1] + b[1])


def csub(a, b):
    return (a[0] - b[0], a[1] - b[1])


def cmul(a, b):
    return (a[0] * b[0] - a[1] * b[1], a[0] * b[1] + a[1] * b[0])


def cdiv(a, b):
    n = b[0] * b[0] + b[1] * b[1]
    return ((a[0] * b[0] + a[1] * b[1]) / n, (a[1] * b[0] - a[0] * b[1]) / n)


CZ = (Fraction(0), Fraction(0))
C1 = (Fraction(1), Fraction(0))


def cmatmul(A, B):
    r, k, c = len(A), len(B), (len(B[0]) if B else 0)
    out = [[CZ for _ in range(c)] for _ in range(r)]
    for i in range(r):
        for j in range(c):
            s = CZ
            for l in range(k):
                s = cadd(s, cmul(A[i][l], B[l][j]))
            out[i][j] = s
    return out


def cinv(A):
    n = len(A)
    M = [list(A[i]) + [C1 if i == j else CZ for j in range(n)] for i in range(n)]
    for col in range(n):
        piv = next((r for r in range(col, n) if M[r][col] != CZ), None)
        if piv is None:
            raise ZeroDivisionError("singular")
        M[col], M[piv] = M[piv], M[col]
        p = M[col][col]
        M[col] = [cdiv(x, p) for x in M[col]]
        for r in range(n):
            if r != col and M[r][col] != CZ:
                f = M[r][col]
                M[r] = [csub(x, cmul(f, y)) for x, y in zip(M[r], M[col])]
    return [row[n:] for row in M]


# --- circuits ----------------------------------------------------------------
def random_circuit(rng, ncomp_max=6, ports_max=4, kind="general", p_link=0.6, p_expose=0.8,
                   allow_zero_exposed=False, unitary=False, shared_names=True):
    """A circuit description:
      comps: [{"pins": [names], "idx": [index of each pin in the matrix], "S": matrix (Fractions)}]
      links: [(a, p, b, q)] with a != b  (component indices, pin names)
      exposed: [(name, c, p)]
    """
    ncomp = rng.randint(1, ncomp_max)
    comps = []
    for c in range(ncomp):
        n = rng.randint(1, ports_max)
        # pin names are local to a component: by default the same few names (a0, a1, ...) recur on every
        # component, as with library blocks; `shared_names=False` gives circuit-wide unique names
        names = [f"a{i}" for i in range(n)] if shared_names else [f"p{c}x{i}" for i in range(n)]
        rng.shuffle(names)
        idx = list(range(n))
        rng.shuffle(idx)
        if unitary:
            S = rational_unitary(rng, n)
        else:
            S = contractive(rng, n, kind=kind)
        comps.append({"pins": names, "idx": idx, "S": S})
    allpins = [(c, p) for c, comp in enumerate(comps) for p in comp["pins"]]
    rng.shuffle(allpins)
    links = []
    used = set()
    # bias: multi-links and cycles arise naturally from a random partial matching
    pool = list(allpins)
    while len(pool) >= 2:
        a = pool.pop()
        if rng.random() > p_link:
            continue
        cands = [x for x in pool if x[0] != a[0]]
        if not cands:
            continue
        # bias towards a component already linked to a's component (multi-link)
        linked = [x for x in cands if any((l[0] == a[0] and l[2] == x[0]) or (l[2] == a[0] and l[0] == x[0]) for l in links)]
        b = rng.choice(linked) if linked and rng.random() < 0.4 else rng.choice(cands)
        pool.remove(b)
        if rng.random() < 0.5:
            a, b = b, a
        links.append((a[0], a[1], b[0], b[1]))
        used.add(a)
        used.add(b)
    free = [x for x in allpins if x not in used]
    exposed = []
    k = 0
    for x in free:
        if rng.random() < p_expose:
            exposed.append((f"X{k}", x[0], x[1]))
            k += 1
    if not exposed and free and not allow_zero_exposed:
        exposed.append(("X0", free[0][0], free[0][1]))
    rng.shuffle(exposed)
    return {"comps": comps, "links": links, "exposed": exposed}


def circuit_json(circ):
    return {
        "comps": [{"pins": c["pins"], "idx": c["idx"], "S": mat_json(c["S"])} for c in circ["comps"]],
        "links": [{"a": a, "p": p, "b": b, "q": q} for (a, p, b, q) in circ["links"]],
        "exposed": [{"name": n, "c": c, "p": p} for (n, c, p) in circ["exposed"]],
    }


def circuit_from_json(j):
    from common import parse_cfrac
    comps = []
    for c in j["comps"]:
        n = len(c["pins"])
        flat = [parse_cfrac(z) for z in c["S"]]
        S = [flat[i * n:(i + 1) * n] for i in range(n)]
        comps.append({"pins": list(c["pins"]), "idx": list(c["idx"]), "S": S})
    links = [(l["a"], l["p"], l["b"], l["q"]) for l in j["links"]]
    exposed = [(e["name"], e["c"], e["p"]) for e in j["exposed"]]
    return {"comps": comps, "links": links, "exposed": exposed}


def reference_solve(circ):
    """Independent global reference (numpy only, no lekkersim, no Lean): solve (1 - S P) b = S E u.

    Returns (T, cond, B, info) with T the exposed×exposed solution operator, B the map from exposed
    excitations to *all* outgoing waves b, and the pin ordering."""
    pins = []
    for c, comp in enumerate(circ["comps"]):
        inv = {comp["idx"][k]: comp["pins"][k] for k in range(len(comp["pins"]))}
        for i in range(len(comp["pins"])):
            pins.append((c, inv[i]))
    pos = {p: i for i, p in enumerate(pins)}
    n = len(pins)
    S = np.zeros((n, n), complex)
    off = 0
    for c, comp in enumerate(circ["comps"]):
        k = len(comp["pins"])
        S[off:off + k, off:off + k] = mat_np(comp["S"])
        off += k
    P = np.zeros((n, n))
    for (a, p, b, q) in circ["links"]:
        P[pos[(a, p)], pos[(b, q)]] = 1.0    # a-input at (a,p) = b-output at (b,q)
        P[pos[(b, q)], pos[(a, p)]] = 1.0
    ne = len(circ["exposed"])
    E = np.zeros((n, ne))
    for k, (nm, c, p) in enumerate(circ["exposed"]):
        E[pos[(c, p)], k] = 1.0
    M = np.eye(n) - S @ P
    cond = float(np.linalg.cond(M)) if n else 1.0
    if not np.isfinite(cond) or cond > 1e13:
        return np.zeros((ne, ne), complex), float("inf"), np.zeros((n, ne), complex), {"pins": pins, "pos": pos, "P": P, "E": E, "S": S}
    B = np.linalg.solve(M, S @ E) if n else np.zeros((0, ne))
    T = E.T @ B
    return T, cond, B, {"pins": pins, "pos": pos, "P": P, "E": E, "S": S}
