"""./check — entry point of the verification machinery (see DESIGN.md section 4)."""
from __future__ import annotations

import argparse
import importlib
import json
import os
import shutil
import sys
import time
import traceback
from pathlib import Path

HERE = Path(__file__).resolve().parent
sys.path.insert(0, str(HERE))

from common import VERIF, REPO, LEAN, WORK, Ctx, setup_impl_path, write_replay, canon  # noqa: E402
import leanstage  # noqa: E402

OBLIG = json.loads((VERIF / "obligations.json").read_text())

COMMON_TRUSTED = [
    "Lean 4.33.0 kernel; Mathlib v4.33.0 as installed; axioms allowed: propext, Classical.choice, Quot.sound "
    "(audited with #print axioms on every run; no sorry/admit/native_decide/bv_decide/axiom of ours)",
    "correspondence harness (this Python code) and its generators: coverage bounds what the tie sees",
    "IEEE-754 / LAPACK / numpy round-off: comparisons are to a tolerance, theorems are over exact fields",
]


def evidence_path(pid):
    return VERIF / "evidence" / f"{pid}.json"


def write_evidence(pid, tier, seed, mod, ctx, lean, n_viol, wall):
    cov = {
        "obligations": lean["obligations"],
        "discharged": lean["discharged"],
        "checker_cmd": lean["checker_cmd"],
        "trusted_base": COMMON_TRUSTED + list(getattr(mod, "TRUSTED", [])),
        "obligation_names": OBLIG[pid]["theorems"],
        "axioms_found": lean.get("axioms", {}),
        "broken_obligations": lean.get("broken", []),
        "generated_from_source": {k: {kk: vv for kk, vv in v.items()} for k, v in lean.get("generated", {}).items()},
        "evaluations": ctx.evaluations,
        "distinct_nontrivial": len(ctx.distinct),
        "rule": getattr(mod, "RULE", ""),
        "samples": ctx.samples if ctx.samples else [{"obligations": OBLIG[pid]["theorems"][:3]}],
        "distribution": dict(sorted(ctx.dist.items())),
        "correspondence_disagreements": ctx.disagreements,
        "known_findings_seen": [v["signature"] for v in ctx.violations if ctx.findings.known(pid, v["signature"])],
        "widened_search": ctx.scale > 1,
        "driver_lines": ctx._driver.lines if ctx._driver is not None else 0,
        "notes": ctx.notes,
        "explanation": getattr(mod, "EXPLANATION", ""),
    }
    cov.update(ctx.extra)
    if cov["discharged"] == 0:
        # schema: a proof-level record needs discharged >= 1; say plainly that nothing was discharged
        del cov["discharged"]
        cov["discharged_none"] = True
    ev = {
        "property_id": pid,
        "tier": tier,
        "seed": seed,
        "level": "proof",
        "coverage": cov,
        "assumptions": list(getattr(mod, "ASSUMPTIONS", [])),
        "wall_s": round(wall, 2),
        "violations": n_viol,
    }
    p = evidence_path(pid)
    p.parent.mkdir(exist_ok=True)
    p.write_text(json.dumps(canon(ev), indent=1))


def run_check(pid, tier, seed):
    t0 = time.time()
    spec = OBLIG[pid]
    mod = importlib.import_module(f"props.{pid.lower()}")
    ctx = Ctx(pid, tier, seed)
    lean = leanstage.lean_stage(pid, spec, thorough=(tier == "thorough"))
    setup_impl_path()
    ctx.workdir = WORK / str(os.getpid())
    ctx.workdir.mkdir(parents=True, exist_ok=True)
    # anchor fingerprints: a changed source is when a sampled tie is weakest -> search harder (never an alarm by itself)
    import anchors
    anc = anchors.status(pid)
    ctx.extra["anchor_fingerprints"] = anc
    if tier == "quick" and (anc["functions_changed"] or anc["files_changed"]):
        ctx.scale = 5 if anc["functions_changed"] else 2
        ctx.deadline = time.time() + 150
        ctx.notes.append(f"anchored source differs from the pinned tree ({len(anc['functions_changed'])} anchored functions, "
                         f"{len(anc['files_changed'])} files): case budget x{ctx.scale}, capped at 150 s")
    if tier == "thorough":
        # the thorough tier is the deep exploration: several times the nominal thorough budgets (VERIF_THOROUGH_SCALE, default 3)
        ctx.scale = max(1, int(os.environ.get("VERIF_THOROUGH_SCALE", "3")))
        ctx.notes.append(f"thorough tier: case budgets x{ctx.scale}")
    try:
        mod.run(ctx)
        new = [v for v in ctx.violations if not ctx.findings.known(pid, v["signature"])]
        broken = list(lean.get("broken", []))
        if (broken or ctx.disagreements) and not new:
            # a proof obligation or the correspondence no longer checks: search harder for a failing input
            ctx.scale = 10
            ctx.deadline = time.time() + (300 if tier == "quick" else 1500)
            ctx.notes.append("widened search after broken obligation / correspondence disagreement")
            mod.run(ctx)
            new = [v for v in ctx.violations if not ctx.findings.known(pid, v["signature"])]
    finally:
        ctx.close()
    rc = 0
    lines = []
    for v in ctx.violations:
        k = ctx.findings.known(pid, v["signature"])
        if k:
            lines.append(f"KNOWN-FINDING: property={pid} {k.get('what', v['what'])} [{v['signature']}]")
    n_viol = 0
    for v in new:
        path = write_replay(pid, {"property": pid, "signature": v["signature"], "what": v["what"], "case": v["replay"]})
        lines.append(f"VIOLATION property={pid} replay={path}")
        n_viol += 1
        rc = 1
    if not new and (broken or ctx.disagreements):
        data = {"property": pid, "no_failing_input_found": True,
                "broken_obligations": broken, "correspondence_disagreements": ctx.disagreements,
                "what": "a theorem / the model-implementation correspondence no longer checks; the widened "
                        "search found no input on which the property fails on the implementation"}
        path = write_replay(pid, data)
        lines.append(f"VIOLATION property={pid} replay={path} no-failing-input-found")
        n_viol += 1
        rc = 1
    write_evidence(pid, tier, seed, mod, ctx, lean, n_viol, time.time() - t0)
    for l in lines:
        print(l)
    print(f"[{pid}] tier={tier} seed={seed} obligations={lean['discharged']}/{lean['obligations']} "
          f"cases={ctx.evaluations} distinct={len(ctx.distinct)} violations={n_viol} "
          f"known={sum(1 for l in lines if l.startswith('KNOWN'))} wall={time.time()-t0:.1f}s")
    return rc


def run_replay(pid, path):
    mod = importlib.import_module(f"props.{pid.lower()}")
    data = json.loads(Path(path).read_text())
    if data.get("no_failing_input_found"):
        print(f"REPLAY property={pid}: no failing input recorded; broken: "
              f"{[b['obligation'] for b in data.get('broken_obligations', [])]} "
              f"{[d['correspondence'] for d in data.get('correspondence_disagreements', [])]}")
        # re-run the lean stage to say whether it still does not check
        lean = leanstage.lean_stage(pid, OBLIG[pid])
        still = bool(lean.get("broken"))
        print("still broken" if still else "obligations check on the current tree")
        return 1 if still else 0
    setup_impl_path()
    ctx = Ctx(pid, "quick", 0)
    ctx.workdir = WORK / str(os.getpid())
    ctx.workdir.mkdir(parents=True, exist_ok=True)
    try:
        held, msg = mod.replay(ctx, data["case"])
    finally:
        ctx.close()
    print(f"REPLAY property={pid} {'held' if held else 'VIOLATED'}: {msg}")
    return 0 if held else 1


def setup():
    """MANIFEST.setup_cmd: regenerate, build everything (offline)."""
    with leanstage.Lock():
        gen = leanstage.regenerate()
        print("generated:", {k: v["error"] or "ok" for k, v in gen.items()})
        rc, out, dt = leanstage.lake(["build", "lkdriver"])
        print(f"lake build lkdriver rc={rc} {dt:.0f}s")
        if rc != 0:
            print(out[-3000:])
            return 2
        rc, out, dt = leanstage.lake(["build", "LekkerVerif", "LekkerVerif.All"])
        print(f"lake build (all property files) rc={rc} {dt:.0f}s")
        if rc != 0:
            print(out[-3000:])
            return 2
    return 0


def main():
    ap = argparse.ArgumentParser()
    ap.add_argument("pid", nargs="?")
    ap.add_argument("--tier", default=os.environ.get("VERIF_TIER", "quick"), choices=["quick", "thorough"])
    ap.add_argument("--replay")
    ap.add_argument("--setup", action="store_true")
    a = ap.parse_args()
    seed = int(os.environ.get("VERIF_SEED", "0") or 0)
    if a.replay:
        # a replay runs under the hash seed of the run that found it
        try:
            hs = str(json.loads(Path(a.replay).read_text()).get("hashseed", ""))
        except Exception:  # noqa
            hs = ""
        if hs and os.environ.get("PYTHONHASHSEED") != hs:
            os.execve(sys.executable, [sys.executable] + sys.argv, dict(os.environ, PYTHONHASHSEED=hs))
    try:
        if a.setup:
            sys.exit(setup())
        if a.pid not in OBLIG:
            print(f"unknown property {a.pid}")
            sys.exit(2)
        if a.replay:
            sys.exit(run_replay(a.pid, a.replay))
        sys.exit(run_check(a.pid, a.tier, seed))
    except SystemExit:
        raise
    except Exception:
        traceback.print_exc()
        print("INFRASTRUCTURE-FAILURE (exit 2)")
        sys.exit(2)
    finally:
        shutil.rmtree(WORK / str(os.getpid()), ignore_errors=True)


if __name__ == "__main__":
    main()
