"""Line-protocol client for the Lean model driver (`lkdriver`)."""
from __future__ import annotations

import json
import subprocess
import threading

from common import LEAN


class DriverError(RuntimeError):
    pass


class Driver:
    def __init__(self, timeout: float = 120.0):
        exe = LEAN / ".lake" / "build" / "bin" / "lkdriver"
        if not exe.exists():
            raise DriverError(f"{exe} missing (run ./check --setup)")
        self.timeout = timeout
        self.p = subprocess.Popen([str(exe)], stdin=subprocess.PIPE, stdout=subprocess.PIPE,
                                  stderr=subprocess.DEVNULL, text=True, bufsize=1)
        self.lines = 0

    def ask(self, obj: dict) -> dict:
        line = json.dumps(obj, separators=(",", ":"))
        result = {}

        def work():
            try:
                self.p.stdin.write(line + "\n")
                self.p.stdin.flush()
                result["out"] = self.p.stdout.readline()
            except Exception as e:  # pragma: no cover
                result["exc"] = e

        t = threading.Thread(target=work, daemon=True)
        t.start()
        t.join(self.timeout)
        if t.is_alive():
            self.p.kill()
            raise DriverError("driver timeout")
        if "exc" in result or not result.get("out"):
            raise DriverError(f"driver died: {result.get('exc')}")
        self.lines += 1
        return json.loads(result["out"])

    def close(self):
        try:
            self.p.stdin.close()
            self.p.wait(timeout=5)
        except Exception:
            self.p.kill()
