"""Random hierarchies of solvers (C02, C11, C19): description, real build, equivalent flat circuit."""
from __future__ import annotations

from fractions import Fraction

import numpy as np

import gen
import impl


class Leaf:
    def __init__(self, pins, idx, S0, S1=None, param=None, default=Fraction(0), empty=False):
        self.pins, self.idx, self.S0, self.S1, self.param, self.default, self.empty = pins, idx, S0, S1, param, default, empty
        self.kind = "leaf"

    def pin_names(self):
        return list(self.pins)


class Node:
    def __init__(self):
        self.kind = "solver"
        self.children = []      # list of (child object, rename dict old->new)
        self.links = []         # (i, pin, j, pin)  i != j : child indices
        self.expose = []        # (name, i, pin)
        self.dead = False       # only dead content (for prune tests)

    def pin_names(self):
        return [e[0] for e in self.expose]


def gen_leaf(rng, counter, parametric=False, pnames=("pa", "pb")):
    counter[0] += 1
    n = rng.randint(1, 3)
    pins = [f"a{i}" for i in range(n)]          # local names, recurring on every component
    idx = rng.sample(range(n), n)
    if parametric:
        S0 = gen.contractive(rng, n, target=0.4, kind=rng.choice(["general", "reflectionless"]))
        S1 = gen.contractive(rng, n, target=0.4)
        return Leaf(pins, idx, S0, S1, rng.choice(list(pnames)), Fraction(rng.randint(-4, 4), 8))
    return Leaf(pins, idx, gen.contractive(rng, n, target=0.8))


def gen_node(rng, depth, counter, parametric=False, pool=None, renames=False, top=True):
    node = Node()
    pool = [] if pool is None else pool
    nch = rng.randint(1, 3)
    for _ in range(nch):
        r = rng.random()
        if pool and r < 0.2:
            child = rng.choice(pool)                       # reuse: the same object placed again
        elif depth > 1 and r < 0.6:
            child = gen_node(rng, depth - 1, counter, parametric, pool, renames, top=False)
            pool.append(child)
        else:
            child = gen_leaf(rng, counter, parametric)
            pool.append(child)
        node.children.append((child, {}))
    # links between free pins of different placements
    free = [(i, p) for i, (ch, _) in enumerate(node.children) for p in ch.pin_names()]
    rng.shuffle(free)
    used = set()
    while len(free) >= 2:
        a = free.pop()
        if rng.random() > 0.6:
            continue
        cands = [x for x in free if x[0] != a[0]]
        if not cands:
            continue
        b = rng.choice(cands)
        free.remove(b)
        node.links.append((a[0], a[1], b[0], b[1]) if rng.random() < 0.5 else (b[0], b[1], a[0], a[1]))
        used.add(a)
        used.add(b)
    rest = [(i, p) for i, (ch, _) in enumerate(node.children) for p in ch.pin_names() if (i, p) not in used]
    counter[1] += 1
    k = 0
    for (i, p) in rest:
        if rng.random() < (0.9 if top else 0.7):
            node.expose.append((f"e{counter[1]}n{k}", i, p))
            k += 1
    if not node.expose and rest:
        node.expose.append((f"e{counter[1]}n0", rest[0][0], rest[0][1]))
    return node


# ---------------------------------------------------------------- real build
def build(node, cache=None, rename_kw=True):
    """returns the real object (Model or Solver) for a description; shared descriptions give shared objects"""
    L = impl.lk()
    cache = {} if cache is None else cache
    if id(node) in cache:
        return cache[id(node)]
    if node.kind == "leaf":
        if node.empty == "matrix":
            obj = L.Model(Smatrix=np.array([[0, 1], [1, 0]], complex))          # a matrix, but no pins
        elif node.empty == "solved":
            inner = L.Solver()
            inner.add_structure(L.Structure(model=L.Model(pin_dic={L.Pin("u"): 0, L.Pin("v"): 1}, Smatrix=np.array([[0, 1], [1, 0]], complex))))
            import logging
            lg = logging.getLogger("lekkersim")
            old = lg.level
            lg.setLevel(logging.ERROR)
            try:
                obj = inner.solve()                                             # nothing exposed: a solved model without pins
            finally:
                lg.setLevel(old)
        elif node.empty:
            obj = L.Model()
        elif node.S1 is None:
            n = len(node.pins)
            obj = L.Model(pin_dic={L.Pin(p): i for p, i in zip(node.pins, node.idx)}, Smatrix=gen.mat_np(node.S0, n, n))
        else:
            AM = impl._CLASSES.get("am") or impl.affine_model_class()
            impl._CLASSES["am"] = AM
            n = len(node.pins)
            obj = AM(node.pins, node.idx, gen.mat_np(node.S0, n, n), gen.mat_np(node.S1, n, n), pname=node.param, default=float(node.default))
        cache[id(node)] = obj
        return obj
    sol = L.Solver()
    sts = []
    for child, rho in node.children:
        obj = build(child, cache)
        if child.kind == "leaf":
            st = L.Structure(model=obj, param_mapping=dict(rho) if rho else None)
        else:
            st = L.Structure(solver=obj, param_mapping=dict(rho) if rho else None)
        sol.add_structure(st)
        sts.append(st)
    for (i, p, j, q) in node.links:
        sol.connect(sts[i], p, sts[j], q)
    for (nm, i, p) in node.expose:
        sol.map_pins({L.Pin(nm): (sts[i], L.Pin(p))})
    cache[id(node)] = sol
    sol._verif_sts = sts
    return sol


# ---------------------------------------------------------------- equivalent flat circuit
def visible(node):
    """parameter names visible at the level of `node` (what its default_params list)"""
    if node.kind == "leaf":
        return [node.param] if node.param else []
    out = []
    for child, rho in node.children:
        for x in visible(child):
            y = rho.get(x, x)
            if y not in out:
                out.append(y)
    return out


def flatten_desc(node, values=None):
    """flat circuit (comps with concrete S at `values`), links, and the map exposed name -> (comp, pin) of `node`"""
    comps, links = [], []

    def inst(n, env):
        """instantiate n; returns map: pin name of n -> (comp index, leaf pin)"""
        if n.kind == "leaf":
            if n.empty:
                return {}
            c = len(comps)
            k = len(n.pins)
            if n.S1 is None:
                S = n.S0
            else:
                p = env.get(n.param, n.default)
                S = [[gen.cadd(n.S0[i][j], gen.cmul((Fraction(p), Fraction(0)), n.S1[i][j])) for j in range(k)] for i in range(k)]
            comps.append({"pins": list(n.pins), "idx": list(n.idx), "S": S})
            return {p: (c, p) for p in n.pins}
        maps = []
        for child, rho in n.children:
            # a placement that renames x -> y hands the value of y down as x (and shields its own x); renamings are injective
            # on the child's visible names, values not given stay at the leaves' defaults
            sub = {x: env[rho.get(x, x)] for x in visible(child) if rho.get(x, x) in env} if rho else env
            maps.append(inst(child, sub))
        for (i, p, j, q) in n.links:
            a, b = maps[i][p], maps[j][q]
            links.append((a[0], a[1], b[0], b[1]))
        return {nm: maps[i][p] for (nm, i, p) in n.expose}
    top = inst(node, values or {})
    exposed = [(nm, c, p) for nm, (c, p) in top.items()]
    return {"comps": comps, "links": links, "exposed": exposed}


def tree_json(node):
    """the hierarchy as the request of the driver op `hsolve` (non-parametric leaves; a placed object is repeated)"""
    if node.kind == "leaf":
        return {"leaf": {"pins": list(node.pins), "idx": list(node.idx), "S": gen.mat_json(node.S0)}}
    return {"children": [tree_json(ch) for ch, _ in node.children],
            "links": [{"a": i, "p": p, "b": j, "q": q} for (i, p, j, q) in node.links],
            "exposed": [{"name": nm, "c": i, "p": p} for (nm, i, p) in node.expose]}


def tree_json_any(node):
    """as tree_json, for parametric leaves too (their matrix at the default value is irrelevant to the structure)"""
    if node.kind == "leaf":
        return {"leaf": {"pins": list(node.pins), "idx": list(node.idx), "S": gen.mat_json(node.S0)}}
    return {"children": [tree_json_any(ch) for ch, _ in node.children],
            "links": [{"a": i, "p": p, "b": j, "q": q} for (i, p, j, q) in node.links],
            "exposed": [{"name": nm, "c": i, "p": p} for (nm, i, p) in node.expose]}


def ptree_json(node):
    """the parametric hierarchy as the request of the driver op `phsolve` (rename tables as (new, old) pairs in listing order)"""
    if node.kind == "leaf":
        k = len(node.pins)
        zero = [[(Fraction(0), Fraction(0))] * k for _ in range(k)]
        return {"leaf": {"pins": list(node.pins), "idx": list(node.idx), "S0": gen.mat_json(node.S0),
                         "S1": gen.mat_json(node.S1 if node.S1 is not None else zero),
                         "param": node.param or "__none__", "dflt": [gen.frac_str(Fraction(node.default)), "0/1"]}}
    return {"children": [[[[new, old] for old, new in rho.items()], ptree_json(ch)] for ch, rho in node.children],
            "links": [{"a": i, "p": p, "b": j, "q": q} for (i, p, j, q) in node.links],
            "exposed": [{"name": nm, "c": i, "p": p} for (nm, i, p) in node.expose]}


def model_psolve(ctx, node, kw, names):
    """`top.solve(**kw)` through the model (PNet.psolve); returns (outcome, T ordered like `names`, defaults dict)"""
    ans = ctx.driver.ask({"op": "phsolve", "tree": ptree_json(node),
                          "kw": [[k, [gen.frac_str(Fraction(v)), "0/1"]] for k, v in kw.items()]})
    dfl = {k: float(Fraction(v[0])) for k, v in ans.get("defaults", [])}
    if "wftree" in ans:
        ctx.tag("hyp:WFTree" if ans["wftree"] else "hyp:outside:WFTree")
    if "pwf" in ans:
        ctx.tag("hyp:PWF" if ans["pwf"] else "hyp:outside:PWF")
    if "T" not in ans:
        return ans.get("err", "?"), None, dfl
    if sorted(ans["pins"]) != sorted(names):
        return f"pins {ans['pins']}", None, dfl
    n = len(names)
    T = gen.json_mat_np([z for row in ans["T"] for z in row], n, n) if n else np.zeros((0, 0), complex)
    order = [ans["pins"].index(nm) for nm in names]
    return "ok", (T[np.ix_(order, order)] if n else T), dfl


def depth(node):
    if node.kind == "leaf":
        return 0
    return 1 + max([depth(c) for c, _ in node.children] + [0])


def count_placements(node):
    if node.kind == "leaf":
        return 1
    return sum(count_placements(c) for c, _ in node.children)


def describe(node, memo=None):
    memo = {} if memo is None else memo
    if id(node) in memo:
        return {"ref": memo[id(node)]}
    memo[id(node)] = len(memo)
    if node.kind == "leaf":
        d = {"id": memo[id(node)], "leaf": {"pins": node.pins, "idx": node.idx, "S0": gen.mat_json(node.S0) if node.S0 else [],
                                             "S1": gen.mat_json(node.S1) if node.S1 else None, "param": node.param,
                                             "default": gen.frac_str(node.default), "empty": node.empty}}
        return d
    return {"id": memo[id(node)], "children": [[describe(c, memo), list(r.items())] for c, r in node.children],
            "links": [list(l) for l in node.links], "expose": [list(e) for e in node.expose]}


def undescribe(d, memo=None):
    from common import parse_cfrac
    memo = {} if memo is None else memo
    if "ref" in d:
        return memo[d["ref"]]
    if "leaf" in d:
        l = d["leaf"]
        n = len(l["pins"])
        un = lambda flat: [[parse_cfrac(z) for z in flat[i * n:(i + 1) * n]] for i in range(n)]
        node = Leaf(l["pins"], l["idx"], un(l["S0"]) if l["S0"] else [], un(l["S1"]) if l["S1"] else None, l["param"], Fraction(l["default"]), l.get("empty", False))
        memo[d["id"]] = node
        return node
    node = Node()
    memo[d["id"]] = node
    for c, r in d["children"]:
        node.children.append((undescribe(c, memo), dict(r)))
    node.links = [tuple(l) for l in d["links"]]
    node.expose = [tuple(e) for e in d["expose"]]
    return node
