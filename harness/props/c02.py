"""C02 — hierarchy is transparent: nested solvers equal the flat circuit.
Random hierarchies (depth <= 4, sub-solvers and models placed several times, partial exposure per level) solved
by the real code vs the equivalent single-level circuit (numpy reference, real flat build, exact Lean model)."""
from __future__ import annotations

import numpy as np

import circuits as cs
import gen
import hier
import impl

RULE = ("random hierarchies: depth 1-4 (thorough 6), 1-3 placements per solver, 20% of the placements reuse an object "
        "(model or sub-solver) that is already placed elsewhere, random links between placements, random partial "
        "exposure at every level; plus every library block solved bare vs wrapped in a solver with all pins raised; "
        "distinct = distinct hierarchy description; non-trivial = depth >= 2 and at least one link")
TRUSTED = ["flattening of the hierarchy description into the equivalent flat circuit (harness/hier.py)", "numpy reference"]
ASSUMPTIONS = ["every inner system met at any level is invertible",
               "renamed-placements stream: the value that reaches a leaf follows the renaming rules of C05 (renamings injective on the cell's names, every visible name given)"]
EXPLANATION = "C01 gives that each level returns the solution operator of its sub-network; substitution of a solved sub-network is exercised by the oracle"


def check(ctx, node, replay):
    flat = hier.flatten_desc(node)
    names = cs.exposed_names(flat)
    Tref, cond, _, _ = gen.reference_solve(flat)
    if cond > 1e6:
        ctx.tag("skipped:ill-conditioned")
        return True
    tol = 1e-9 * max(1.0, cond)
    try:
        cache = {}
        sol = hier.build(node, cache)
        sol._verif_cache = cache
        mod = sol.solve()
        T = impl.solved_matrix(mod, names)[0]
    except Exception as e:  # noqa
        if impl.outcome_class(e) == "singular":
            ctx.tag("outcome:singular-raised")
            return True
        ctx.violation(f"C02:raised-{type(e).__name__}", f"building/solving a valid hierarchy raised {type(e).__name__}: {str(e)[:70]}", replay)
        return False
    err = float(np.max(np.abs(T - Tref))) if T.size else 0.0
    if not (err <= tol):
        ctx.violation("C02:hierarchy-differs", f"hierarchical solve differs from the flat circuit by {err:.3e}", replay)
        return False
    # the same circuit built flat with the real code
    out, Tf = cs.impl_solve(flat)
    if out == "ok" and Tf.size and float(np.max(np.abs(Tf - T))) > tol:
        ctx.violation("C02:flat-build-differs", "real flat build and real hierarchical build differ", replay)
        return False
    # exact model on the flat circuit
    if len(flat["comps"]) <= 10:
        mo, Tm = cs.model_solve(ctx, flat)
        if mo != "ok":
            ctx.disagreement("C02.model.flat", f"model: {mo}", replay)
        elif Tm.size and float(np.max(np.abs(Tm - T))) > tol:
            ctx.disagreement("C02.model.flat", "exact model of the flat circuit differs from the hierarchical solve", replay)
        # the hierarchical model (HNet.solveH: every sub-circuit solved first, its exposed block handed up) on the same tree
        ans = ctx.driver.ask({"op": "hsolve", "tree": hier.tree_json(node)})
        if "T" not in ans:
            ctx.disagreement("C02.model.hier", f"hierarchical model: {ans.get('err', '?')}", replay)
        else:
            order = [ans["pins"].index(nm) for nm in names] if sorted(ans["pins"]) == sorted(names) else None
            if order is None:
                ctx.disagreement("C02.model.hier", f"hierarchical model exposes {ans['pins']}, the code {names}", replay)
            else:
                n = len(ans["pins"])
                Th = gen.json_mat_np([z for row in ans["T"] for z in row], n, n) if n else np.zeros((0, 0), complex)
                Th = Th[np.ix_(order, order)] if n else Th
                ctx.tag("model:hier", "hyp:WFTree" if ans.get("wftree") else "hyp:outside:WFTree")
                if Th.size and float(np.max(np.abs(Th - T))) > tol:
                    ctx.disagreement("C02.model.hier", "exact hierarchical model differs from the hierarchical solve of the code", replay)
                elif mo == "ok" and Th.size and float(np.max(np.abs(Th - Tm))) > 1e-12:
                    ctx.disagreement("C02.model.hier", "hierarchical and flat model differ (C02_transparent says they cannot)", replay)
    # solving twice gives the same (sub-solvers are shared objects)
    try:
        T2 = impl.solved_matrix(sol.solve(), names)[0]
        if T2.size and float(np.max(np.abs(T2 - T))) > 1e-12:
            ctx.violation("C02:second-solve-differs", "solving the same hierarchy twice gives different matrices", replay)
            return False
    except Exception as e:  # noqa
        ctx.violation(f"C02:second-solve-raised-{type(e).__name__}", "second solve of the hierarchy raised", replay)
        return False
    # edit a sub-solver in place (terminate one of its hidden free pins) and solve again: the parent must see it
    rng = __import__("random").Random(len(flat["comps"]) * 1009 + len(flat["links"]))
    cache = getattr(sol, "_verif_cache", None)
    target = pick_hidden_pin(node, rng)
    if target is not None and cache is not None:
        sub, i, p = target
        L = impl.lk()
        from fractions import Fraction
        refl = (Fraction(rng.randint(-6, 6), 8), Fraction(rng.randint(-6, 6), 8))
        term = hier.Leaf([f"term{id(sub) % 1000}"], [0], [[refl]])
        try:
            real_sub = cache[id(sub)]
            tst = L.Structure(model=hier.build(term, cache))
            real_sub.add_structure(tst)
            real_sub.connect(real_sub._verif_sts[i], p, tst, term.pins[0])
            sub.children.append((term, {}))
            sub.links.append((i, p, len(sub.children) - 1, term.pins[0]))
            flat2 = hier.flatten_desc(node)
            Tref2, cond2, _, _ = gen.reference_solve(flat2)
            if cond2 <= 1e6:
                T3 = impl.solved_matrix(sol.solve(), cs.exposed_names(flat2))[0]
                e3 = float(np.max(np.abs(T3 - Tref2))) if T3.size else 0.0
                if e3 > 1e-9 * max(1.0, cond2):
                    ctx.violation("C02:stale-after-edit", f"after editing a placed sub-solver in place the parent differs from the flat circuit by {e3:.3e}", replay)
                    return False
            ctx.tag("edited-subsolver")
        except Exception as e:  # noqa
            if impl.outcome_class(e) != "singular":
                ctx.violation(f"C02:edit-raised-{type(e).__name__}", f"editing a sub-solver and solving again raised {type(e).__name__}: {str(e)[:60]}", replay)
                return False
    return True


def pick_hidden_pin(node, rng):
    """a (sub-solver description, child index, pin) whose pin is free and not exposed, below the top level"""
    cands = []
    seen = set()

    def walk(n, top):
        if n.kind == "leaf" or id(n) in seen:
            return
        seen.add(id(n))
        if not top:
            used = {(i, p) for (i, p, j, q) in n.links} | {(j, q) for (i, p, j, q) in n.links} | {(i, p) for (_, i, p) in n.expose}
            for i, (ch, _) in enumerate(n.children):
                for p in ch.pin_names():
                    if (i, p) not in used:
                        cands.append((n, i, p))
        for ch, _ in n.children:
            walk(ch, False)
    walk(node, True)
    return rng.choice(cands) if cands else None


def bare_vs_wrapped(ctx):
    """a bare component vs a solver that contains only that component with all pins raised - as a *history* on one instance:
    the same model object is solved bare and through a wrapper around itself (and around a fresh instance) for a sequence of
    calls that mixes all parameters given, some given, none given (defaults) and repeats"""
    import props.c04 as c04
    L = impl.lk()
    rng = ctx.subrng("c02-bare")
    for name, (factory, params) in c04.block_factories().items():
        if name == "FPRGaussian":
            continue
        required = c04.REQUIRED.get(name, [])
        m = factory()
        wrappers = []
        for inst in (m, factory()):
            sol = L.Solver()
            with sol:
                inst.put()
                L.raise_pins()
            wrappers.append(sol)
        calls = []
        for k in range(6):
            r = rng.random()
            if k == 0:
                kw = {q: (lo + hi) / 2 for q, (lo, hi) in params.items()}
            elif r < 0.4:
                kw = {}
            else:
                kw = {q: rng.uniform(lo, hi) for q, (lo, hi) in params.items() if rng.random() < 0.6}
            for q in required:
                kw.setdefault(q, rng.uniform(*params[q]))
            calls.append(kw)
        rep = {"kind": "bare", "block": name}
        ctx.case(("bare", name), tags=["stream:bare-vs-wrapped"])
        try:
            for k, kw in enumerate(calls):
                # what a *fresh* instance gives for this call is the reference for all three
                ref = factory().solve(**kw)
                order = [("bare", lambda: m.solve(**kw)), ("wrapped-same-instance", lambda: wrappers[0].solve(**kw)),
                         ("wrapped-fresh-instance", lambda: wrappers[1].solve(**kw))]
                if k % 2:
                    order = order[1:] + order[:1]
                for label, fn in order:
                    got = fn()
                    for p_, i in ref.pin_dic.items():
                        for q_, j in ref.pin_dic.items():
                            a_ = np.asarray(ref.S)[0, i, j]
                            b_ = np.asarray(got.S)[0, got.pin_dic[p_], got.pin_dic[q_]]
                            if abs(a_ - b_) > 1e-12:
                                ctx.violation(f"C02:bare-vs-wrapped:{name}", f"{name}: call {k} {sorted(kw)} ({label}) differs from a fresh bare solve at "
                                              f"({p_.name},{q_.name}) after the calls {[sorted(c) for c in calls[:k]]}", rep)
                                raise StopIteration
        except StopIteration:
            continue
        except Exception as e:  # noqa
            ctx.violation(f"C02:bare-vs-wrapped-raised:{name}", f"{name}: {type(e).__name__}: {str(e)[:60]}", rep)


def renamed_placements(ctx, rng, data=None):
    """one parametric cell (a sub-solver with leaves driven by pa / pb) placed two or three times in a parent, each placement with
    its own renaming of the cell's parameters - onto a shared parent name, onto each other's names, swapped, or none - optionally
    wrapped once more; every visible parameter is given a value; the real hierarchical solve against the flat reference in which
    every leaf carries the value the renaming rules route to it"""
    from fractions import Fraction
    if data is None:
        counter = [0, 0]
        cell = hier.Node()
        for pn in rng.sample(["pa", "pb"], 2)[:rng.randint(1, 2)] + (["pa"] if rng.random() < 0.3 else []):
            lf = hier.gen_leaf(rng, counter, parametric=True, pnames=(pn,))
            cell.children.append((lf, {}))
        free = [(i, q) for i, (ch, _) in enumerate(cell.children) for q in ch.pin_names()]
        rng.shuffle(free)
        if len(cell.children) >= 2:
            a = free.pop()
            b = next((x for x in free if x[0] != a[0]), None)
            if b is not None:
                free.remove(b)
                cell.links.append((a[0], a[1], b[0], b[1]))
        for k, (i, q) in enumerate(free[:3]):
            cell.expose.append((f"c{k}", i, q))
        vis = hier.visible(cell)
        options = [{}, {vis[0]: "V"}, {vis[-1]: "V"}, {vis[0]: "W"}]
        if len(vis) == 2:
            options += [{vis[0]: vis[1], vis[1]: vis[0]}, {vis[0]: "V", vis[1]: "W"}, {vis[0]: "W", vis[1]: "V"}, {vis[1]: "W"}]
        parent = hier.Node()
        for _ in range(rng.randint(2, 3)):
            parent.children.append((cell, dict(rng.choice(options))))
        # chain the placements through their first / last exposed pin, expose the rest
        names = cell.pin_names()
        used = set()
        for i in range(len(parent.children) - 1):
            if len(names) >= 2 and rng.random() < 0.8:
                parent.links.append((i, names[-1], i + 1, names[0]))
                used |= {(i, names[-1]), (i + 1, names[0])}
        k = 0
        for i in range(len(parent.children)):
            for q in names:
                if (i, q) not in used:
                    parent.expose.append((f"x{k}", i, q))
                    k += 1
        top = parent
        if rng.random() < 0.4:
            top = hier.Node()
            pv = hier.visible(parent)
            rho = {pv[0]: "Z"} if pv and rng.random() < 0.5 else {}
            top.children.append((parent, rho))
            for j, (nm, _, _) in enumerate(parent.expose):
                top.expose.append((f"t{j}", 0, nm))
        tv = hier.visible(top)
        assigns = [{x: Fraction(rng.randint(-8, 8), 8) for x in tv} for _ in range(3)]
        data = {"kind": "renamed-placements", "tree": hier.describe(top), "assigns": [{x: gen.frac_str(v) for x, v in a.items()} for a in assigns]}
    node = hier.undescribe(data["tree"])
    ctx.case(data["tree"], tags=["stream:renamed-placements"])
    try:
        sol = hier.build(node)
    except Exception as e:  # noqa
        ctx.violation(f"C02:renamed-build-raised-{type(e).__name__}", f"building a cell placed several times with renamings raised: {str(e)[:70]}", data)
        return
    for a in data["assigns"]:
        vals = {x: Fraction(v) for x, v in a.items()}
        flat = hier.flatten_desc(node, vals)
        names = cs.exposed_names(flat)
        Tref, cond, _, _ = gen.reference_solve(flat)
        if cond > 1e6:
            ctx.tag("skipped:ill-conditioned")
            continue
        try:
            T = impl.solved_matrix(sol.solve(**{x: float(v) for x, v in vals.items()}), names)[0]
        except Exception as e:  # noqa
            if impl.outcome_class(e) == "singular":
                continue
            ctx.violation(f"C02:renamed-raised-{type(e).__name__}", f"solving a cell placed several times with renamings raised: {str(e)[:70]}", data)
            return
        mo, Tm, _ = hier.model_psolve(ctx, node, vals, names)
        if mo != "ok":
            ctx.disagreement("C02.model.psolve", f"parametric hierarchical model: {mo}", data)
        elif Tm.size and float(np.max(np.abs(Tm - T))) > 1e-9 * max(1.0, cond):
            ctx.disagreement("C02.model.psolve", f"parametric hierarchical model (PNet.psolve) differs from solve({dict(a)}) of the code", data)
        else:
            ctx.tag("model:psolve")
        err = float(np.max(np.abs(T - Tref))) if T.size else 0.0
        if err > 1e-9 * max(1.0, cond):
            ctx.violation("C02:renamed-placements-differ", f"a cell placed {len(node.children) if node.children[0][0].kind != 'solver' or len(node.children) > 1 else len(node.children[0][0].children)} "
                          f"times with different renamings: hierarchical solve at {dict(a)} differs from the flat circuit by {err:.3e}", data)
            return


def placement_unit(ctx, rng, data=None):
    """the step the abstract network of `C02_transparent` takes for granted: the structure that wraps a placed solver carries, on
    the pins it adopted, exactly the matrix the child's own solve() returns - pin by pin, at every sweep point, also when the
    same child is wrapped twice and evaluated at different values in between"""
    import props.c04 as c04
    L = impl.lk()
    if data is None:
        pcirc, pnames = c04.random_pcirc(rng, 4)
        kws = [{nm: ([rng.randint(-6, 6) / 8 for _ in range(3)] if rng.random() < 0.3 else rng.randint(-6, 6) / 8)
                for nm in pnames if rng.random() < 0.7} for _ in range(3)]
        rep = {"kind": "placement-unit", "pcirc": c04.pcirc_json(pcirc), "kws": kws}
    else:
        pcirc, kws, rep = c04.pcirc_from_json(data["pcirc"]), data["kws"], data
    names = cs.exposed_names(pcirc)
    if not names:
        return
    ctx.case(rep, tags=["stream:placement-unit"])
    try:
        child, _ = impl.build_param_solver(pcirc, name="child")
        wraps = [L.Structure(solver=child), L.Structure(solver=child)]
        for k, kw0 in enumerate(kws):
            kw = {nm: (np.array(v) if isinstance(v, list) else v) for nm, v in kw0.items()}
            st = wraps[k % 2]
            st.reset()
            st.update_params(dict(kw))
            S = np.asarray(st.createS())
            ref = child.solve(**kw)
            R = np.asarray(ref.S)
            if S.shape != R.shape:
                ctx.violation("C02:placement-matrix", f"the wrapping structure's matrix has shape {S.shape}, the child's solve() {R.shape}", rep)
                return
            for a in names:
                for b in names:
                    i, j = st.pin_dic[(st, L.Pin(a))], st.pin_dic[(st, L.Pin(b))]
                    if np.max(np.abs(S[:, i, j] - R[:, ref.pin_dic[L.Pin(a)], ref.pin_dic[L.Pin(b)]])) > 1e-12:
                        ctx.violation("C02:placement-matrix", f"the structure wrapping a placed solver does not carry the child's coefficient ({a},{b}) "
                                      f"(evaluation {k}, parameters {sorted(kw)})", rep)
                        return
    except Exception as e:  # noqa
        if impl.outcome_class(e) != "singular":
            ctx.violation(f"C02:placement-raised-{type(e).__name__}", f"evaluating a placed solver raised {type(e).__name__}: {str(e)[:70]}", rep)


def run(ctx):
    prng = ctx.subrng("c02-placement")
    for _ in range(ctx.budget(60, 600)):
        placement_unit(ctx, prng)
    rrng = ctx.subrng("c02-renamed")
    for _ in range(ctx.budget(120, 1500)):
        renamed_placements(ctx, rrng)
    rng = ctx.subrng("c02")
    n = ctx.budget(300, 2000)
    maxd = 4 if ctx.tier == "quick" else 6
    for i in range(n):
        if ctx.time_left() < 0:
            break
        node = hier.gen_node(rng, rng.randint(1, maxd), [0, 0])
        d = hier.depth(node)
        replay = {"kind": "hier", "tree": hier.describe(node)}
        nl = hier.count_placements(node)
        flat_links = len(hier.flatten_desc(node)["links"])
        ctx.case(replay["tree"], nontrivial=(d >= 2 and flat_links >= 1), tags=[f"depth:{d}", f"leaves:{min(nl, 12)}"],
                 sample={"depth": d, "leaf_placements": nl, "flat_links": flat_links} if i < 2 else None)
        check(ctx, node, replay)
    bare_vs_wrapped(ctx)


def replay(ctx, data):
    if data.get("kind") == "placement-unit":
        placement_unit(ctx, None, data)
        if ctx.violations:
            return False, ctx.violations[0]["what"]
        return True, "the wrapping structure carries the child's matrix on the adopted pins"
    if data.get("kind") == "renamed-placements":
        renamed_placements(ctx, None, data)
        if ctx.violations:
            return False, ctx.violations[0]["what"]
        return True, "a cell placed several times with different renamings equals the flat circuit"
    if data.get("kind") == "bare":
        bare_vs_wrapped(ctx)
    else:
        check(ctx, hier.undescribe(data["tree"]), data)
    if ctx.violations:
        return False, ctx.violations[0]["what"]
    return True, "hierarchical solve equals the flat circuit"
