"""C11 — flatten() preserves the scattering matrix and every parameter's meaning.
Random parametric hierarchies (sub-solvers placed several times, renamings at any level sharing names across
levels); solve(**p) before vs after flatten() for sampled p incl. {}; default_params; no sub-solver left."""
from __future__ import annotations

import copy
from fractions import Fraction

import numpy as np

import gen
import hier
import impl

RULE = ("random hierarchies of affine probe blocks: depth 2-4 (thorough 6), 1-3 placements per solver, 20% reuse of placed "
        "objects, random injective renamings on 40% of the placements (suffix renames, swaps of a child's own names, names "
        "shared across levels), connections declared in both orientations (model->solver and solver->model), 4 parameter "
        "assignments per hierarchy ({} first); distinct = distinct hierarchy; non-trivial = depth >= 2 with a renaming")
TRUSTED = ["harness/hier.py build", "equality before/after is checked on the real code; absolute correctness of parameter routing is C05's"]
ASSUMPTIONS = ["sub-solvers define no add_param parameters (documented limitation of flatten)"]
EXPLANATION = "one-level inlining preserves the wiring abstraction (C07 step lemmas) and rename composition is C05_compose"


def visible(node, memo=None):
    """parameter names visible at the level of `node` (what its default_params will list)"""
    if node.kind == "leaf":
        return [node.param] if node.param else []
    out = []
    for child, rho in node.children:
        for x in visible(child):
            y = rho.get(x, x)
            if y not in out:
                out.append(y)
    return out


def add_renames(rng, node, seen=None):
    seen = set() if seen is None else seen
    if node.kind == "leaf" or id(node) in seen:
        return
    seen.add(id(node))
    new_children = []
    for child, _ in node.children:
        add_renames(rng, child, seen)
        names = visible(child)
        rho = {}
        if names and rng.random() < 0.4:
            r = rng.random()
            if r < 0.3 and len(names) >= 2:
                a, b = rng.sample(names, 2)
                rho = {a: b, b: a}
            elif r < 0.7:
                sub = [x for x in names if rng.random() < 0.6] or names[:1]
                rho = {x: x + rng.choice(["_u", "_v"]) for x in sub}
            else:
                x = rng.choice(names)
                tgt = rng.choice(["pa", "pb", "pc"])
                if tgt != x and tgt not in names:
                    rho = {x: tgt}
            # the renaming must be injective on the child's whole visible parameter set
            images = [rho.get(x, x) for x in names]
            if len(set(images)) != len(images):
                rho = {}
            items = list(rho.items())
            rng.shuffle(items)
            rho = dict(items)
        new_children.append((child, rho))
    node.children = new_children


def has_rename(node, seen=None):
    seen = set() if seen is None else seen
    if node.kind == "leaf" or id(node) in seen:
        return False
    seen.add(id(node))
    return any(bool(rho) or has_rename(c, seen) for c, rho in node.children)


def check(ctx, node, assigns, replay):
    L = impl.lk()
    names = [e[0] for e in node.expose]
    cache = {}
    try:
        top = hier.build(node, cache)
        d_before = {k: v for k, v in top.default_params.items()}
        before = []
        for p in assigns:
            before.append(impl.solved_matrix(top.solve(**p), names)[0])
    except Exception as e:  # noqa
        if impl.outcome_class(e) == "singular":
            return True
        ctx.violation(f"C11:before-raised-{type(e).__name__}", f"solving the hierarchy before flatten raised {type(e).__name__}: {str(e)[:70]}", replay)
        return False
    # the end-to-end model of the hierarchy (defaults registered at placement, dictionaries resolved and renamed on the way down,
    # every level solved bottom-up: PNet.psolve) on the same calls
    if hier.count_placements(node) <= 9:
        for i, p in enumerate(assigns):
            mo, Tm, dfl = hier.model_psolve(ctx, node, p, names)
            if mo != "ok":
                ctx.disagreement("C11.model.psolve", f"model: {mo}", replay)
                break
            ctx.tag("model:psolve")
            if Tm.size and float(np.max(np.abs(Tm - before[i]))) > 1e-9:
                ctx.disagreement("C11.model.psolve", f"parametric hierarchical model differs from solve({sorted(p)}) of the code before flatten()", replay)
                break
            real_d = {k: float(v) for k, v in d_before.items() if v is not None}
            if i == 0 and ({k: v for k, v in dfl.items() if k != "__none__"} != real_d):
                ctx.disagreement("C11.model.defaults", f"default_params of the model {dfl} vs the code {real_d}", replay)
                break
    # sometimes a placed sub-solver is flattened in place first (its own pin table is re-ordered by that); the parent must
    # still see the same block, before and after its own flatten()
    import random as _random
    rr = _random.Random(str(replay.get("inner_seed", 0)))
    if replay.get("inner_first"):
        nested = []

        def walk(sv, seen):
            for st in sv.structures:
                if st.solver is not None and id(st.solver) not in seen:
                    seen.add(id(st.solver))
                    if any(x.solver is not None for x in st.solver.structures):
                        nested.append(st.solver)
                    walk(st.solver, seen)
        walk(top, set())
        if nested:
            try:
                for sv in [x for x in nested if rr.random() < 0.6] or nested[:1]:
                    sv.flatten()
                ctx.tag("sub-solver-flattened-first")
                for i, p in enumerate(assigns):
                    T = impl.solved_matrix(top.solve(**p), names)[0]
                    if T.size and float(np.max(np.abs(T - before[i]))) > 1e-9:
                        ctx.violation("C11:matrix-changed-by-inner-flatten", "flattening a placed sub-solver in place changed what the parent computes", replay)
                        return False
            except Exception as e:  # noqa
                if impl.outcome_class(e) != "singular":
                    ctx.violation(f"C11:inner-flatten-raised-{type(e).__name__}", f"flattening a placed sub-solver / solving the parent raised {type(e).__name__}: {str(e)[:70]}", replay)
                    return False
    try:
        top.flatten()
    except Exception as e:  # noqa
        sig = "C11:orientation" if isinstance(e, TypeError) else f"C11:flatten-raised-{type(e).__name__}"
        ctx.violation(sig, f"flatten() raised {type(e).__name__}: {str(e)[:70]}", replay)
        return False
    if any(st.solver is not None for st in top.structures):
        ctx.violation("C11:subsolver-left", "a solver-backed structure is left after flatten()", replay)
        return False
    d_after = {k: v for k, v in top.default_params.items()}
    if not structure_tie(ctx, node, top, cache, replay):
        return False
    for i, p in enumerate(assigns):
        try:
            T = impl.solved_matrix(top.solve(**p), names)[0]
        except Exception as e:  # noqa
            if impl.outcome_class(e) == "singular":
                continue
            sig = "C11:rename-compose" if isinstance(e, KeyError) else f"C11:after-raised-{type(e).__name__}"
            ctx.violation(sig, f"solve({sorted(p)}) after flatten raised {type(e).__name__}: {str(e)[:70]}", replay)
            return False
        d = float(np.max(np.abs(T - before[i]))) if T.size else 0.0
        if d > 1e-9:
            ctx.violation("C11:matrix-changed" if not has_rename(node) else "C11:param-meaning-changed",
                          f"solve({ {k: round(v, 4) for k, v in p.items()} }) differs by {d:.3e} after flatten()", replay)
            return False
    # the parametric side of flatten() in the model: composed rename table per leaf placement, and the solve after it
    if hier.count_placements(node) <= 9 and not replay.get("inner_first"):
        from collections import Counter
        leaves = []

        def walk(n):
            if n.kind == "leaf":
                leaves.append(n)
                return
            for ch, _ in n.children:
                walk(ch)
        walk(node)
        obj2leaf = {id(cache[k]): k for k in cache}
        for i, p in enumerate(assigns[:2] if hier.count_placements(node) <= 6 else assigns[:1]):
            ans = ctx.driver.ask({"op": "pflatten", "tree": hier.ptree_json(node),
                                  "kw": [[k, [gen.frac_str(Fraction(v)), "0/1"]] for k, v in p.items()]})
            if "tables" not in ans or len(ans["tables"]) != len(leaves):
                ctx.disagreement("C11.model.pflatten", f"model: {str(ans)[:80]}", replay)
                break
            if i == 0:
                m_tabs = Counter((id(lf), frozenset((a, b) for a, b in tab if a != b)) for lf, tab in zip(leaves, ans["tables"]))
                r_tabs = Counter((obj2leaf.get(id(st.model)), frozenset((a, b) for a, b in st.param_mapping.items() if a != b)) for st in top.structures)
                if m_tabs != r_tabs:
                    ctx.disagreement("C11.model.pflatten", "rename tables on the structures after flatten() differ from the composed tables of the model", replay)
                    break
            if "T" in ans and sorted(ans["pins"]) == sorted(names):
                n = len(names)
                order = [ans["pins"].index(nm) for nm in names]
                Tm = gen.json_mat_np([z for row in ans["T"] for z in row], n, n) if n else np.zeros((0, 0), complex)
                Tm = Tm[np.ix_(order, order)] if n else Tm
                ctx.tag("model:pflatten")
                if Tm.size and float(np.max(np.abs(Tm - before[i]))) > 1e-9:
                    ctx.disagreement("C11.model.pflatten", f"model of flatten(); solve({sorted(p)}) differs from the code's solve before flatten()", replay)
                    break
    if d_before != d_after:
        extra = sorted(set(d_after) - set(d_before))
        missing = sorted(set(d_before) - set(d_after))
        changed = sorted(k for k in d_before if k in d_after and d_before[k] != d_after[k])
        ctx.violation("C11:defaults", f"default_params changed by flatten(): extra {extra}, missing {missing}, changed {changed}", replay)
        return False
    return True


def structure_tie(ctx, node, top, cache, replay):
    """what flatten() left behind (structures, connections, exposures) against `HNet.flatten` of the description: the leaf
    components (each placement once), the links between leaf pins and the exposed names with their leaf pins - compared as
    multisets keyed by the identity of the leaf *object*, which is all the flattened solver retains of a placement's origin"""
    from collections import Counter
    if hier.count_placements(node) > 12:
        return True
    ans = ctx.driver.ask({"op": "hflatten", "tree": hier.tree_json_any(node)})
    if "paths" not in ans or ans.get("leaf"):
        ctx.disagreement("C11.model.flatten", f"model: {str(ans)[:80]}", replay)
        return True

    def leaf_at(path):
        n = node
        for i in path:
            n = n.children[i][0]
        return n
    leaf_ids = [id(leaf_at(p)) for p in ans["paths"]]
    obj2leaf = {id(cache[k]): k for k in cache}                 # real object -> description node
    pname = lambda q: q.name if hasattr(q, "name") else str(q)
    try:
        real_leaves = Counter(obj2leaf[id(st.model)] for st in top.structures)
        real_links = Counter()
        seen = set()
        for (s1, p1), (s2, p2) in top.connections.items():
            key = frozenset([(id(s1), pname(p1)), (id(s2), pname(p2))])
            if key in seen:
                continue
            seen.add(key)
            real_links[frozenset([(obj2leaf[id(s1.model)], pname(p1)), (obj2leaf[id(s2.model)], pname(p2))])] += 1
        real_exp = {pname(nm): (obj2leaf[id(st.model)], pname(q)) for nm, (st, q) in top.pin_mapping.items()}
    except KeyError:
        ctx.violation("C11:foreign-structure", "after flatten() the solver holds a structure whose model is none of the hierarchy's leaf objects", replay)
        return False
    m_leaves = Counter(leaf_ids)
    m_links = Counter(frozenset([(leaf_ids[a], p), (leaf_ids[b], q)]) for a, p, b, q in ans["links"])
    m_exp = {nm: (leaf_ids[c], q) for nm, c, q in ans["exposed"]}
    ctx.tag("model:flatten-structure")
    if real_leaves != m_leaves:
        ctx.violation("C11:components-changed", f"flatten() left {sum(real_leaves.values())} structures, the hierarchy has {sum(m_leaves.values())} leaf placements "
                      f"(or they are not the same components)", replay)
        return False
    if real_links != m_links:
        ctx.violation("C11:connections-changed", f"the connections after flatten() ({sum(real_links.values())}) are not the links of all levels resolved to leaf pins "
                      f"({sum(m_links.values())})", replay)
        return False
    if real_exp != m_exp:
        ctx.violation("C11:exposure-changed", "the exposed names after flatten() do not point at the leaf pins they stood for", replay)
        return False
    return True


def unit_compose(ctx, rng):
    """a single probe with table L inside a sub-solver placed with table P: the table the probe carries after
    flatten() vs the Lean composeTables, and the value it uses vs the two-step renaming"""
    L = impl.lk()
    import props.c05 as c05
    P_ = c05.probe_class()
    names = ["A", "B"]
    # lower renaming over the probe's names, parent renaming over the sub-solver's visible names
    lo = c05.rand_rename(rng, names)
    if not c05.total_injective(lo, names):
        lo = {}
    mid = [lo.get(x, x) for x in names]
    up = c05.rand_rename(rng, mid)
    if not c05.total_injective(up, mid):
        up = {}
    rep = {"kind": "unit", "lower": list(lo.items()), "upper": list(up.items())}
    ctx.case(rep, nontrivial=bool(lo) and bool(up), tags=["stream:unit-compose"])
    try:
        inner = L.Solver()
        with inner:
            st = P_("u", {"A": 0.25, "B": -0.5}).put(param_mapping=dict(lo)) if lo else P_("u", {"A": 0.25, "B": -0.5}).put()
            L.raise_pins()
        top = L.Solver()
        with top:
            inner.put(param_mapping=dict(up)) if up else inner.put()
            L.raise_pins()
        vis = [up.get(x, x) for x in mid]
        vals = {v: (k + 1) / 8 for k, v in enumerate(vis)}
        before = top.solve(**vals)
        b = [before.get_A("ua0", "ub0"), before.get_A("ua1", "ub1")]
        top.flatten()
        after = top.solve(**vals)
        a = [after.get_A("ua0", "ub0"), after.get_A("ua1", "ub1")]
        table = dict(top.structures[0].param_mapping)
    except Exception as e:  # noqa
        ctx.violation(f"C11:unit-raised-{type(e).__name__}", f"two-level rename case raised {type(e).__name__}: {str(e)[:60]}", rep)
        return
    if max(abs(x - y) for x, y in zip(a, b)) > 1e-12:
        ctx.violation("C11:param-meaning-changed", f"probe values differ after flatten for lower table {lo}, parent table {up}", rep)
        return
    ans = ctx.driver.ask({"op": "compose", "P": [[n, o] for o, n in up.items()], "L": [[n, o] for o, n in lo.items()]})
    if "table" not in ans:
        ctx.disagreement("C11.model.compose", f"model: {ans}", rep)
    elif {k: v for k, v in ans["table"]} != table:
        ctx.disagreement("C11.model.compose", f"Lean composeTables {ans['table']} vs implementation {table}", rep)


def deep_twice_case(rng):
    """depth-3 pattern: a middle solver that itself contains a placed sub-solver is placed twice in the top solver
    with *different* renamings of a parameter that reaches the innermost block"""
    counter = [100, 100]
    leaf = hier.gen_leaf(rng, counter, parametric=True, pnames=("pa",))
    inner = hier.Node()
    inner.children.append((leaf, {"pa": "m1"} if rng.random() < 0.7 else {}))
    inner.expose = [(f"i{k}", 0, p) for k, p in enumerate(leaf.pins)]
    nm1 = "m1" if inner.children[0][1] else "pa"
    middle = hier.Node()
    middle.children.append((inner, {nm1: "m2"} if rng.random() < 0.5 else {}))
    nm2 = "m2" if middle.children[0][1] else nm1
    extra = hier.gen_leaf(rng, counter, parametric=True, pnames=("pb",))
    middle.children.append((extra, {}))
    ipins = inner.pin_names()
    middle.links = [(0, ipins[0], 1, extra.pins[0])] if rng.random() < 0.7 else []
    used = {(0, ipins[0]), (1, extra.pins[0])} if middle.links else set()
    k = 0
    for i, ch in enumerate((inner, extra)):
        for p in ch.pin_names():
            if (i, p) not in used:
                middle.expose.append((f"md{k}", i, p))
                k += 1
    top = hier.Node()
    top.children.append((middle, {nm2: "X"}))
    top.children.append((middle, {nm2: "Y"}))
    mp = middle.pin_names()
    if len(mp) >= 1 and rng.random() < 0.6:
        top.links = [(0, mp[0], 1, mp[0])]
    usedt = {(0, mp[0]), (1, mp[0])} if top.links else set()
    k = 0
    for i in range(2):
        for p in mp:
            if (i, p) not in usedt:
                top.expose.append((f"t{k}", i, p))
                k += 1
    return top


def run(ctx):
    rng = ctx.subrng("c11")
    n = ctx.budget(150, 2000)
    maxd = 4 if ctx.tier == "quick" else 6
    for i in range(n):
        if ctx.time_left() < 0:
            break
        node = hier.gen_node(rng, rng.randint(2, maxd), [0, 0], parametric=True)
        add_renames(rng, node)
        vis = visible(node)
        assigns = [{}]
        for _ in range(3):
            assigns.append({x: rng.randint(-8, 8) / 8 for x in vis if rng.random() < 0.6})
        # also try names that exist only below (must stay shielded / ineffective in the same way)
        replay = {"tree": hier.describe(node), "assigns": assigns, "inner_first": rng.random() < 0.4, "inner_seed": rng.randrange(10 ** 9)}
        d = hier.depth(node)
        ctx.case(replay["tree"], nontrivial=(d >= 2 and has_rename(node)), tags=[f"depth:{d}", "renamed" if has_rename(node) else "plain"],
                 sample={"depth": d, "visible": vis} if i < 2 else None)
        check(ctx, node, assigns, replay)
    for _ in range(ctx.budget(150, 2000)):
        unit_compose(ctx, rng)
    for i in range(ctx.budget(40, 400)):
        node = deep_twice_case(rng)
        vis = visible(node)
        assigns = [{}] + [{x: rng.randint(-8, 8) / 8 for x in vis if rng.random() < 0.8} for _ in range(3)]
        replay = {"tree": hier.describe(node), "assigns": assigns, "inner_first": rng.random() < 0.4, "inner_seed": rng.randrange(10 ** 9)}
        ctx.case(replay["tree"], tags=["stream:deep-twice"])
        check(ctx, node, assigns, replay)


def replay(ctx, data):
    if data.get("kind") == "unit":
        return True, "unit stream is regenerated, not replayed"
    check(ctx, hier.undescribe(data["tree"]), data["assigns"], data)
    if ctx.violations:
        return False, ctx.violations[0]["what"]
    return True, "flatten() preserved matrix, parameter meaning and defaults"
