"""C13 — modes are independent: expand_mode replicates, connect_all pairs like modes, queries are exact."""
from __future__ import annotations

import numpy as np

import gen
import impl
import props.c04 as c04

RULE = ("(a) every single-mode library block, user-defined models with shuffled rows and ports that carry no pin, and random affine probe blocks x random mode lists (1-4 modes) x random "
        "parameters and sweeps: coefficient between (p,m) and (q,m') vs the single-mode coefficient / zero; (b) random "
        "circuits of mode-expanded probes wired with connect_all over random (partially overlapping) mode sets vs the "
        "single-mode circuit per common mode; (c) base-name / mode-name queries on models and placed structures; "
        "distinct = distinct case; non-trivial = at least two modes")
TRUSTED = ["numpy reference for the per-mode circuits"]
ASSUMPTIONS = ["mode names contain no underscore clash with base names (names are generated)"]
EXPLANATION = "index layout i*N+n of expand_mode / diag_blocks and the intersection rule of connect_all as Lean theorems"

MODES = ["TE", "TM", "m2", "m3"]


def check_expand(ctx, rng, name, factory, params, force_sweep=False):
    L = impl.lk()
    modes = rng.sample(MODES, rng.randint(1, 4))
    r = rng.random()
    if r < 0.15:
        modes = list(range(rng.randint(1, 3)))                 # modes numbered from zero
    elif r < 0.25:
        modes = rng.sample(["", "h", "TE"], rng.randint(2, 3))     # a label that is falsy but not None (the empty string)
    ns = 3 if force_sweep else rng.choice([1, 1, 3])
    kw = {}
    for nm, (lo, hi) in params.items():
        if force_sweep or rng.random() < 0.7:
            kw[nm] = np.array([rng.uniform(lo, hi) for _ in range(ns)]) if ns > 1 else rng.uniform(lo, hi)
    for r in c04.REQUIRED.get(name, ()):
        kw.setdefault(r, 1.55)
    rep = {"kind": "expand", "block": name, "modes": modes, "kw": {k: [float(x) for x in np.atleast_1d(v)] for k, v in kw.items()}}
    ctx.case(rep, nontrivial=len(modes) >= 2, tags=[f"expand:{name}", f"modes:{len(modes)}"])
    return run_expand(ctx, name, factory, modes, kw, rep)


def run_expand(ctx, name, factory, modes, kw, rep):
    L = impl.lk()
    try:
        base = factory()
        single = base.solve(**{k: (np.array(v) if np.ndim(v) else v) for k, v in kw.items()})
        S1 = np.array(single.S)
        pd1 = dict(single.pin_dic)
        if any(p.mode_name is not None for p in pd1):
            try:
                factory().expand_mode(modes)
            except Exception:
                return True
            ctx.violation(f"C13:expand-accepts-moded:{name}", "expand_mode accepted a model that already has modes", rep)
            return False
        ex = factory().expand_mode(list(modes))
        multi = ex.solve(**{k: (np.array(v) if np.ndim(v) else v) for k, v in kw.items()})
        S = np.array(multi.S)
        pd = dict(multi.pin_dic)
    except Exception as e:  # noqa
        ctx.violation(f"C13:expand-raised:{name}", f"expand_mode/solve raised {type(e).__name__}: {str(e)[:70]}", rep)
        return False
    if S.shape[0] != S1.shape[0]:
        ctx.violation(f"C13:expand-sweep:{name}", "expanded model has a different sweep length", rep)
        return False
    for p, i in pd1.items():
        for q, j in pd1.items():
            for m in modes:
                for m2 in modes:
                    try:
                        a, b = pd[L.Pin(p.name, m)], pd[L.Pin(q.name, m2)]
                    except KeyError:
                        ctx.violation(f"C13:expand-pins:{name}", f"expanded model lacks pin {p.name}_{m}", rep)
                        return False
                    exp = S1[:, i, j] if m == m2 else np.zeros(S1.shape[0])
                    if not np.allclose(S[:, a, b], exp, atol=1e-12):
                        ctx.violation(f"C13:expand-wrong:{name}", f"coefficient ({p.name},{m})->({q.name},{m2}) is not the single-mode one / zero", rep)
                        return False
    # pin names are basename_mode, and a pin is addressable by that string
    for p, i in pd1.items():
        for m in modes:
            want = f"{p.name}_{m}"
            pin = L.Pin(p.name, m)
            if pin.name != want or want not in multi.pin or multi.pin[want] != pin:
                ctx.violation(f"C13:expand-names:{name}", f"pin ({p.name}, mode {m!r}) of the expanded model is not addressable as {want!r} (its name is {pin.name!r})", rep)
                return False
    p0, q0 = next(iter(pd1)), list(pd1)[-1]
    try:
        z = multi.get_A(f"{p0.name}_{modes[0]}", f"{q0.name}_{modes[0]}")
    except Exception as e:  # noqa
        ctx.violation(f"C13:expand-names:{name}", f"get_A by the names {p0.name}_{modes[0]}, {q0.name}_{modes[0]} raised {type(e).__name__}", rep)
        return False
    if abs(z - S1[0, pd1[p0], pd1[q0]]) > 1e-12:
        ctx.violation(f"C13:expand-names:{name}", f"get_A by name {p0.name}_{modes[0]} -> {q0.name}_{modes[0]} is not the single-mode coefficient", rep)
        return False
    if len(pd) != len(pd1) * len(modes):
        ctx.violation(f"C13:expand-pins:{name}", "expanded model has extra or missing pins", rep)
        return False
    # the same expanded instance solved again at shifted parameter values ("for every parameter value")
    if kw:
        kw2 = {k: (np.array(v) * 0.97 + 0.01 if np.ndim(v) else v * 0.97 + 0.01) for k, v in kw.items()}
        try:
            S2 = np.array(ex.solve(**kw2).S)
            R2 = np.array(factory().solve(**kw2).S)
            for p, i in pd1.items():
                for q, j in pd1.items():
                    a, b = pd[L.Pin(p.name, modes[0])], pd[L.Pin(q.name, modes[0])]
                    if not np.allclose(S2[:, a, b], R2[:, i, j], atol=1e-12):
                        ctx.violation(f"C13:expand-wrong:{name}", f"second solve of the expanded {name} at other parameter values: ({p.name},{modes[0]})->({q.name},{modes[0]}) is not the single-mode coefficient", rep)
                        return False
        except Exception as e:  # noqa
            ctx.violation(f"C13:expand-raised:{name}", f"second solve raised {type(e).__name__}", rep)
            return False
    # queries on the expanded model
    try:
        bn = set(ex.get_pin_basenames())
        if bn != {p.name for p in pd1}:
            ctx.violation("C13:model-basenames", f"Model.get_pin_basenames {sorted(bn)} != {sorted(p.name for p in pd1)}", rep)
            return False
        for p in pd1:
            if sorted(ex.get_pin_modes(p.name)) != sorted(modes):
                ctx.violation("C13:model-modenames", f"Model.get_pin_modes({p.name}) != {modes}", rep)
                return False
        st = L.Structure(model=ex)
        sbn = set(st.get_pin_basenames())
        if sbn != {p.name for p in pd1}:
            ctx.violation("C13:structure-basenames", f"Structure.get_pin_basenames {sorted(sbn)} != {sorted(p.name for p in pd1)}", rep)
            return False
        for p in pd1:
            if sorted(st.get_pin_modenames(p.name)) != sorted(modes):
                ctx.violation("C13:structure-modenames", f"Structure.get_pin_modenames({p.name}) != {modes}", rep)
                return False
            got = sorted((t[1].basename, t[1].mode_name) for t in st.get_pins(p.name))
            if got != sorted((p.name, m) for m in modes):
                ctx.violation("C13:structure-get-pins", f"Structure.get_pins({p.name}) wrong", rep)
                return False
        allp = sorted((t[1].basename, str(t[1].mode_name)) for t in st.get_pins())
        if allp != sorted((p.name, str(m)) for p in pd1 for m in modes) or any(t[0] is not st for t in st.get_pins()):
            ctx.violation("C13:structure-get-pins", "Structure.get_pins() without a base name does not list exactly the pins of the structure", rep)
            return False
    except Exception as e:  # noqa
        ctx.violation("C13:structure-basenames" if "basename" in str(e) or isinstance(e, AttributeError) else f"C13:query-raised-{type(e).__name__}",
                      f"a base-name / mode-name query raised {type(e).__name__}: {str(e)[:70]}", rep)
        return False
    return True


def check_connect_all(ctx, rng, i):
    """circuit of mode-expanded probes wired by base name over the intersection of their mode sets"""
    L = impl.lk()
    circ = gen.random_circuit(rng, ncomp_max=4, ports_max=3, p_link=0.8, p_expose=1.0, shared_names=False)
    n = len(circ["comps"])
    allm = rng.sample(MODES, rng.randint(1, 3))
    msets = []
    for c in range(n):
        ms = [m for m in allm if rng.random() < 0.8] or [allm[0]]
        rng.shuffle(ms)
        msets.append(ms)
    rep = {"kind": "connect_all", "circuit": gen.circuit_json(circ), "modes": msets}
    ctx.case(rep, nontrivial=len(allm) >= 2 and bool(circ["links"]), tags=["stream:connect_all", f"modes:{len(allm)}"],
             sample={"modes": msets, "links": circ["links"]} if i < 1 else None)
    return run_connect_all(ctx, circ, msets, rep)


def run_connect_all(ctx, circ, msets, rep):
    L = impl.lk()
    n = len(circ["comps"])
    try:
        sts = []
        for c, comp in enumerate(circ["comps"]):
            k = len(comp["pins"])
            m = L.Model(pin_dic={L.Pin(p): i for p, i in zip(comp["pins"], comp["idx"])}, Smatrix=gen.mat_np(comp["S"], k, k))
            sts.append(L.Structure(model=m.expand_mode(list(msets[c]))))
        sol = L.Solver()
        for st in sts:
            sol.add_structure(st)
        for (a, p, b, q) in circ["links"]:
            sol.connect_all(sts[a], p, sts[b], q)
    except Exception as e:  # noqa
        ctx.violation("C13:connect-all", f"connect_all raised {type(e).__name__}: {str(e)[:70]}", rep)
        return False
    # which links exist now?
    key = lambda t: ([k for k, s in enumerate(sts) if s is t[0]][0], t[1].basename, t[1].mode_name)
    got = {frozenset((key(a), key(b))) for a, b in sol.connections.items()}
    exp = set()
    for (a, p, b, q) in circ["links"]:
        for m in set(msets[a]) & set(msets[b]):
            exp.add(frozenset(((a, p, m), (b, q, m))))
    if got != exp:
        ctx.violation("C13:connect-all-links", f"connect_all made {len(got)} links, the common modes require {len(exp)} (sets differ)", rep)
        return False
    # behaviour: per mode, the sub-circuit of components that have that mode, linked where both ends have it
    try:
        sol.maps_all_pins()
        mod = sol.solve()
    except Exception as e:  # noqa
        if impl.outcome_class(e) == "singular":
            return True
        ctx.violation(f"C13:multi-mode-solve-{type(e).__name__}", f"solving the multi-mode circuit raised {type(e).__name__}: {str(e)[:60]}", rep)
        return False
    free = {}
    for m in sorted({x for ms in msets for x in ms}):
        comps_m = [c for c in range(n) if m in msets[c]]
        ren = {c: k for k, c in enumerate(comps_m)}
        links_m = [(ren[a], p, ren[b], q) for (a, p, b, q) in circ["links"] if a in ren and b in ren]
        used = {(a, p) for (a, p, b, q) in links_m} | {(b, q) for (a, p, b, q) in links_m}
        exposed = [(p, ren[c], p) for c in comps_m for p in circ["comps"][c]["pins"] if (ren[c], p) not in used]
        cm = {"comps": [circ["comps"][c] for c in comps_m], "links": links_m, "exposed": exposed}
        Tref, cond, _, _ = gen.reference_solve(cm)
        if cond > 1e6:
            continue
        names = [e[0] for e in exposed]
        free[m] = names
        try:
            ix = [mod.pin_dic[L.Pin(nm, m)] for nm in names]
            T = np.asarray(mod.S)[0][np.ix_(ix, ix)]
        except KeyError as e:
            ctx.violation("C13:multi-mode-pins", f"multi-mode result lacks pin {e}", rep)
            return False
        if T.size and np.max(np.abs(T - Tref)) > 1e-9 * max(1, cond):
            ctx.violation("C13:multi-mode-wrong", f"mode {m}: the multi-mode circuit differs from the single-mode circuit by {np.max(np.abs(T - Tref)):.3e}", rep)
            return False
    # no coupling between different modes
    ms = sorted(free)
    for x in ms:
        for y in ms:
            if x < y and free[x] and free[y]:
                L_ = impl.lk()
                ix = [mod.pin_dic[L_.Pin(nm, x)] for nm in free[x]]
                iy = [mod.pin_dic[L_.Pin(nm, y)] for nm in free[y]]
                blk = np.asarray(mod.S)[0][np.ix_(ix, iy)]
                if np.max(np.abs(blk)) > 1e-12:
                    ctx.violation("C13:mode-coupling", f"modes {x} and {y} are coupled", rep)
                    return False
    return True


def query_after_edit(ctx, rng, i):
    """base-name / mode-name queries must describe the pins the *structure* has now: after a neighbour was removed
    (remove_structure takes the facing pins away) and after the model behind an earlier placement was re-labelled"""
    L = impl.lk()
    modes = rng.sample(MODES, rng.randint(1, 3))
    kind = rng.choice(["neighbour-removed", "model-relabelled"])
    rep = {"kind": "query-after-edit", "variant": kind, "modes": modes}
    ctx.case(rep, tags=["stream:query-after-edit", f"variant:{kind}"])
    run_query_after_edit(ctx, rep)


def run_query_after_edit(ctx, rep):
    L = impl.lk()
    kind, modes = rep["variant"], rep["modes"]
    S = np.array([[0.1, 0.8], [0.8, -0.1]], complex)
    try:
        m = L.Model(pin_dic={L.Pin("a0"): 0, L.Pin("b0"): 1}, Smatrix=S.copy()).expand_mode(list(modes))
        st = L.Structure(model=m)
        if kind == "neighbour-removed":
            o = L.Structure(model=L.Model(pin_dic={L.Pin("c0"): 0, L.Pin("d0"): 1}, Smatrix=S.copy()).expand_mode(list(modes)))
            sol = L.Solver()
            sol.add_structure(st)
            sol.add_structure(o)
            sol.connect_all(st, "b0", o, "c0")
            sol.remove_structure(o)
            want = {"a0": sorted(modes)}
        else:
            m.pin_mapping({L.Pin("a0", mm): L.Pin("in", mm) for mm in modes})
            want = {"a0": sorted(modes), "b0": sorted(modes)}           # the earlier placement keeps the pins it was built with
        have = {(p[1].basename, p[1].mode_name) for p in st.pin_list}
        if have != {(b, mm) for b, ms in want.items() for mm in ms}:
            ctx.tag("skipped:query-after-edit-pins-differ")
            return
        bn = sorted(st.get_pin_basenames())
        if bn != sorted(want):
            ctx.violation("C13:structure-basenames", f"Structure.get_pin_basenames after {kind}: {bn}, the structure's pins have base names {sorted(want)}", rep)
            return
        for b in ("a0", "b0", "in"):
            got = sorted(x for x in st.get_pin_modenames(b))
            if got != want.get(b, []):
                ctx.violation("C13:structure-modenames", f"Structure.get_pin_modenames({b}) after {kind}: {got}, the structure has {want.get(b, [])}", rep)
                return
            gp = sorted((t[1].basename, t[1].mode_name) for t in st.get_pins(b))
            if gp != sorted((b, mm) for mm in want.get(b, [])):
                ctx.violation("C13:structure-get-pins", f"Structure.get_pins({b}) after {kind} wrong", rep)
                return
    except Exception as e:  # noqa
        ctx.violation(f"C13:query-raised-{type(e).__name__}", f"query after {kind} raised {type(e).__name__}: {str(e)[:70]}", rep)


def generic_factories():
    """user-defined models (`Model(pin_dic, Smatrix)`): non-symmetric matrices, pins on shuffled / non-contiguous rows,
    ports of the matrix that carry no pin at all"""
    L = impl.lk()
    out = {}
    for nm, (n, rows) in {"Generic:full-shuffled": (3, [2, 0, 1]), "Generic:hidden-port": (3, [0, 1]), "Generic:hidden-first": (4, [3, 1]),
                          "Generic:gaps": (5, [4, 0, 2])}.items():
        r = np.random.default_rng(abs(hash(nm)) % (2 ** 31) if False else sum(map(ord, nm)))
        S = (r.normal(size=(n, n)) + 1j * r.normal(size=(n, n))) * 0.3

        def factory(S=S, rows=rows):
            return L.Model(pin_dic={L.Pin(f"q{k}"): i for k, i in enumerate(rows)}, Smatrix=S.copy())
        out[nm] = (factory, {})
    return out


def all_factories():
    f = dict(c04.block_factories())
    f.update(generic_factories())
    return f


def run(ctx):
    rng = ctx.subrng("c13")
    facts = all_factories()
    reps = ctx.budget(6, 40)
    for name, (factory, params) in facts.items():
        if name in ("FPRGaussian", "UserWaveguide2m"):
            continue
        for r in range(reps):
            if ctx.time_left() < 0:
                return
            check_expand(ctx, rng, name, factory, params, force_sweep=(r == 0))
    qrng = ctx.subrng("c13-query")
    for i in range(ctx.budget(20, 200)):
        query_after_edit(ctx, qrng, i)
    for i in range(ctx.budget(300, 2500)):
        if ctx.time_left() < 0:
            return
        check_connect_all(ctx, rng, i)


def replay(ctx, data):
    if data["kind"] == "query-after-edit":
        run_query_after_edit(ctx, data)
        if ctx.violations:
            return False, ctx.violations[0]["what"]
        return True, "queries describe the structure's own pins"
    if data["kind"] == "expand":
        facts = all_factories()
        factory, params = facts[data["block"]]
        kw = {k: (np.array(v) if len(v) > 1 else v[0]) for k, v in data["kw"].items()}
        run_expand(ctx, data["block"], factory, data["modes"], kw, data)
    else:
        run_connect_all(ctx, gen.circuit_from_json(data["circuit"]), data["modes"], data)
    if ctx.violations:
        return False, ctx.violations[0]["what"]
    return True, "modes are independent"
