"""C12 — split() yields the connected components, each behaving like the original.
Random graphs (trees, cycles, multi-links, isolated components) of affine probe blocks in random declaration
orders; the partition is compared with union-find components and with the Lean `components`; every sub-solver is
solved for random parameter assignments (incl. none) and compared with the original restricted to its pins."""
from __future__ import annotations

import numpy as np

import circuits as cs
import gen
import impl
import props.c04 as c04

RULE = ("random circuits of 1-8 (thorough 14) affine probe blocks with 1-3 ports: random partial matchings giving trees, "
        "cycles, multi-links and isolated components, random declaration order of structures and connections, all free "
        "pins exposed under unique names; 3 parameter assignments per circuit (none / partial / full); thorough: every "
        "graph on <= 4 nodes in every declaration order; distinct = distinct (circuit, order); non-trivial = at least "
        "two components of which one has a link")
TRUSTED = ["union-find reference for the partition", "numpy reference per component"]
ASSUMPTIONS = ["the random-topology stream calls split() on solvers without add_param definitions; definitions are covered by the param-definitions stream"]
EXPLANATION = "components_spec: same returned set iff linked by a chain of connections, any topology, any declaration order"


def uf_components(n, links):
    parent = list(range(n))

    def find(x):
        while parent[x] != x:
            parent[x] = parent[parent[x]]
            x = parent[x]
        return x
    for (a, p, b, q) in links:
        ra, rb = find(a), find(b)
        if ra != rb:
            parent[ra] = rb
    groups = {}
    for x in range(n):
        groups.setdefault(find(x), set()).add(x)
    return {frozenset(g) for g in groups.values()}


def check(ctx, pcirc, order, link_order, assigns, replay, setp=None):
    L = impl.lk()
    AM = impl.affine_model_class() if "am" not in impl._CLASSES else impl._CLASSES["am"]
    impl._CLASSES["am"] = AM
    n = len(pcirc["comps"])
    sts = []
    for comp in pcirc["comps"]:
        k = len(comp["pins"])
        m = AM(comp["pins"], comp["idx"], gen.mat_np(comp["S0"], k, k), gen.mat_np(comp["S1"], k, k),
               pname=comp["param"], default=float(comp["default"]))
        sts.append(L.Structure(model=m))
    try:
        sol = L.Solver(name="orig")
        for c in order:
            sol.add_structure(sts[c])
        for k in link_order:
            a, p, b, q = pcirc["links"][k]
            sol.connect(sts[a], p, sts[b], q)
        sol.maps_all_pins()
        # the same internal pin exposed under a second name (an alias): the sub-circuit that owns it must answer for both
        aliases = []
        exposed = sorted(((n_.name, sid_) for n_, sid_ in ((n_, [k for k, s_ in enumerate(sts) if s_ is t[0]][0]) for n_, t in sol.pin_mapping.items())), key=str)
        if exposed and (len(pcirc["links"]) + len(order)) % 2 == 0:
            nm0, c0 = exposed[(len(pcirc["links"]) * 3 + len(order)) % len(exposed)]
            tgt = sol.pin_mapping[L.Pin(nm0)]
            sol.map_pins({L.Pin("alias0"): tgt})
            aliases.append(("alias0", nm0, c0))
        for nm, v in (setp or {}).items():
            sol.set_param(nm, float(v))         # a solver default that differs from the blocks' own defaults
    except Exception as e:  # noqa
        ctx.violation(f"C12:build-raised-{type(e).__name__}", f"building the circuit raised {type(e).__name__}", replay)
        return False
    try:
        subs = sol.split()
    except Exception as e:  # noqa
        ctx.violation("C12:union-crash", f"split() raised {type(e).__name__}: {str(e)[:60]}", replay)
        return False
    sid = lambda st: [k for k, s in enumerate(sts) if s is st][0]
    got = [frozenset(sid(s) for s in sub.structures) for sub in subs]
    exp = uf_components(n, pcirc["links"])
    if len(got) != len(set(got)) or set(got) != exp or sum(len(g) for g in got) != n:
        ctx.violation("C12:partition", f"split() returned {sorted(map(sorted, got))}, connected components are {sorted(map(sorted, exp))}", replay)
        return False
    # each returned solver is a solver in its own right: its connections are the original's connections among its structures, and
    # the pins it reports as free are the unconnected pins of its structures (the three views of the wiring, C07, hold for it too)
    for sub, members in zip(subs, got):
        cons = {frozenset(((sid(a[0]), a[1].name), (sid(b[0]), b[1].name))) for a, b in sub.connections.items()}
        want = {frozenset(((a, p), (b, q))) for (a, p, b, q) in pcirc["links"] if a in members}
        free = sorted((sid(st), pin.name) for st, pin in sub.free_pins)
        linked = {(a, p) for (a, p, b, q) in pcirc["links"]} | {(b, q) for (a, p, b, q) in pcirc["links"]}
        wfree = sorted((c, p) for c in members for p in pcirc["comps"][c]["pins"] if (c, p) not in linked)
        if cons != want or free != wfree:
            what = "connections" if cons != want else "free pins"
            ctx.violation("C12:sub-solver-wiring", f"sub-solver {sorted(members)}: its {what} are not those of the original restricted to its structures", replay)
            return False
    # Lean model of the union loop on the same adjacency and declaration order
    adj = {c: [] for c in range(n)}
    for st in sol.structures:
        adj[sid(st)] = [sid(t) for t in st.connected_to]
    ans = ctx.driver.ask({"op": "split", "order": list(order), "adj": [adj[c] for c in range(n)]})
    if "sets" not in ans:
        ctx.disagreement("C12.model.components", f"model: {ans}", replay)
    elif {frozenset(s) for s in ans["sets"]} != set(got):
        ctx.disagreement("C12.model.components", f"model {ans['sets']} vs implementation {sorted(map(sorted, got))}", replay)
    # behaviour of every sub-solver.  The order of the solves is varied (sub-solver first or original first,
    # non-default assignments before the empty one): a sub-solver must neither depend on nor disturb the original.
    import copy as _copy
    defaults_before = _copy.deepcopy(sol.default_params)
    order_rng = __import__("random").Random(len(pcirc["links"]) * 7919 + len(order))
    seq = list(assigns)
    order_rng.shuffle(seq)
    seq = seq + [{}]                       # and once more at the defaults, after everything else
    for assign in seq:
        kw = {k: float(v) for k, v in assign.items()}
        sub_first = order_rng.random() < 0.5
        parts = {}

        def solve_subs():
            for sub, members in zip(subs, got):
                names = [p for c in sorted(members) for p in pcirc["comps"][c]["pins"]
                         if not any((a == c and pp == p) or (b == c and qq == p) for (a, pp, b, qq) in pcirc["links"])]
                try:
                    parts[members] = (names, impl.solved_matrix(sub.solve(**kw), names))
                except Exception as e:  # noqa
                    parts[members] = (names, e)
        full = None
        try:
            if sub_first:
                solve_subs()
            full = sol.solve(**kw)
            if not sub_first:
                solve_subs()
        except Exception as e:  # noqa
            if impl.outcome_class(e) == "singular":
                continue
            ctx.violation(f"C12:orig-solve-{type(e).__name__}", "solving the original raised", replay)
            return False
        # independent reference at these values (solver defaults: set_param values, else the blocks' own)
        vals = {}
        for comp in pcirc["comps"]:
            nm = comp["param"]
            vals[nm] = assign.get(nm, (setp or {}).get(nm, comp["default"]))
        conc = c04.at_point(dict(pcirc, exposed=[]), vals)
        # the executable model of split() on this level (HNet.splitLevel: union loop, sub-level per set, each solved) at the defaults
        if not assign and n <= 8 and not aliases and all(len(c_["pins"]) for c_ in pcirc["comps"]):
            tree = {"children": [{"leaf": {"pins": c_["pins"], "idx": c_["idx"], "S": gen.mat_json(c_["S"])}} for c_ in conc["comps"]],
                    "links": [{"a": a, "p": p_, "b": b, "q": q_} for (a, p_, b, q_) in pcirc["links"]],
                    "exposed": [{"name": n_.name, "c": sid(t[0]), "p": t[1].name} for n_, t in sol.pin_mapping.items()]}
            ans = ctx.driver.ask({"op": "hsplit", "tree": tree})
            if "parts" not in ans:
                ctx.disagreement("C12.model.hsplit", f"model: {str(ans)[:80]}", replay)
            else:
                mparts = {frozenset(pt["positions"]): pt for pt in ans["parts"]}
                if set(mparts) != set(got):
                    ctx.disagreement("C12.model.hsplit", f"model parts {sorted(map(sorted, mparts))} vs split() {sorted(map(sorted, got))}", replay)
                else:
                    for sub, members in zip(subs, got):
                        pt = mparts[members]
                        ctx.tag("model:hsplit", "hyp:WFTree" if pt.get("wftree") else "hyp:outside:WFTree")
                        rn = sorted(p_.name for p_ in sub.pin_mapping)
                        if sorted(pt["names"]) != rn:
                            ctx.disagreement("C12.model.hsplit", f"part {sorted(members)} exposes {rn}, the model {sorted(pt['names'])}", replay)
                            break
                        names_, Ts_ = parts.get(members, (None, None))
                        if "T" in pt and names_ is not None and not isinstance(Ts_, Exception) and sorted(names_) == sorted(pt["pins"]):
                            k_ = len(names_)
                            o_ = [pt["pins"].index(x) for x in names_]
                            Tm_ = gen.json_mat_np([z for row in pt["T"] for z in row], k_, k_) if k_ else np.zeros((0, 0), complex)
                            Tm_ = Tm_[np.ix_(o_, o_)] if k_ else Tm_
                            if Tm_.size and float(np.max(np.abs(Tm_ - Ts_[0]))) > 1e-9:
                                ctx.disagreement("C12.model.hsplit", f"part {sorted(members)}: the model's solve of the sub-level differs from the sub-solver's solve at the defaults", replay)
                                break
        for members, (names, Ts) in parts.items():
            if isinstance(Ts, Exception):
                if impl.outcome_class(Ts) == "singular":
                    continue
                ctx.violation("C12:sub-solve-raised", f"sub-solver {sorted(members)} raised {type(Ts).__name__} for parameters {sorted(kw)}: {str(Ts)[:60]}", replay)
                return False
            To = impl.solved_matrix(full, names)
            d = float(np.max(np.abs(Ts - To))) if To.size else 0.0
            if d > 1e-9:
                # who is wrong?  compare both with the independent reference of that component
                sub_c = {"comps": conc["comps"], "links": conc["links"],
                         "exposed": [(nm, c, nm) for c in sorted(members) for nm in pcirc["comps"][c]["pins"] if nm in names]}
                Tref, cond, _, _ = gen.reference_solve(sub_c)
                idx = [[e[0] for e in sub_c["exposed"]].index(nm) for nm in names]
                Tref = Tref[np.ix_(idx, idx)]
                eo = float(np.max(np.abs(To[0] - Tref))) if To.size else 0.0
                es = float(np.max(np.abs(Ts[0] - Tref))) if To.size else 0.0
                who = "the ORIGINAL solver is off (its state was disturbed)" if eo > es else "the sub-solver is off"
                sig = "C12:original-disturbed" if eo > es else ("C12:defaults" if not kw else "C12:sub-differs")
                ctx.violation(sig, f"sub-solver {sorted(members)} and the original differ on its pins by {d:.3e} for parameters {sorted(kw)}; "
                              f"against an independent reference {who} (orig {eo:.2e}, sub {es:.2e})", replay)
                return False
    for (al, nm0, c0) in aliases:
        owner = [sub for sub, members in zip(subs, got) if c0 in members][0]
        try:
            a_sub = owner.solve().get_A(al, nm0)
            a_org = sol.solve().get_A(al, nm0)
        except Exception as e:  # noqa
            if impl.outcome_class(e) == "singular":
                continue
            ctx.violation("C12:alias-lost", f"pin {nm0} is also exposed as {al}: the sub-circuit that owns it raised {type(e).__name__} ({str(e)[:50]}) when asked for it", replay)
            return False
        if abs(a_sub - a_org) > 1e-9:
            ctx.violation("C12:alias-lost", f"coefficient ({al},{nm0}) differs between the sub-circuit and the original", replay)
            return False
    if sol.default_params != defaults_before:
        ctx.violation("C12:original-disturbed", f"solving the split solvers changed the original's default_params: {defaults_before} -> {sol.default_params}", replay)
        return False
    return True


def gen_case(rng, nmax):
    pcirc, pnames = c04.random_pcirc(rng, nmax, shared_names=False)   # maps_all_pins needs unique names
    n = len(pcirc["comps"])
    order = list(range(n))
    rng.shuffle(order)
    lo = list(range(len(pcirc["links"])))
    rng.shuffle(lo)
    from fractions import Fraction
    assigns = [{}]
    assigns.append({nm: Fraction(rng.randint(-6, 6), 8) for nm in pnames if rng.random() < 0.5})
    assigns.append({nm: Fraction(rng.randint(-6, 6), 8) for nm in pnames})
    setp = {nm: Fraction(rng.randint(-6, 6), 8) for nm in pnames if rng.random() < 0.5}
    return pcirc, order, lo, assigns, setp


def param_defs_case(ctx, seed):
    """parameter *definitions* are handed over too: a solver whose groups contain plain probe blocks and hierarchical blocks
    (a probe inside its own solver, placed with or without a renaming), with some parameters redefined at the top through
    add_param; every sub-solver of split() must answer like the original on its pins, for no / some / all new arguments"""
    import random as _random
    import props.c05 as c05
    L = impl.lk()
    rng = _random.Random(f"c12-defs-{seed}")
    Probe = c05.probe_class()
    rep = {"kind": "param-defs", "seed": seed}
    ctx.case(rep, tags=["stream:param-definitions"])
    names = ["A", "B", "C", "D", "E", "F"]
    rng.shuffle(names)
    top = L.Solver(name="top")
    visible = []                      # parameter names visible at the top
    k = 0
    try:
        with top:
            for g in range(rng.randint(2, 3)):
                prev = None
                for e in range(rng.randint(1, 2)):
                    k += 1
                    pname = names[k % len(names)]
                    probe = Probe(f"g{k}", {pname: rng.choice([0.125, 0.25, -0.375, 0.5])})
                    if rng.random() < 0.55:
                        blk = L.Solver(name=f"blk{k}")
                        with blk:
                            probe.put()
                            L.raise_pins()
                        vis = pname
                        if rng.random() < 0.4:
                            vis = f"{pname}r{k}"
                            st = blk.put(param_mapping={pname: vis})
                        else:
                            st = blk.put()
                    else:
                        vis = pname
                        st = probe.put()
                    visible.append(vis)
                    if prev is not None:
                        L.connect(prev.pin[f"g{k-1}b0"], st.pin[f"g{k}a0"])
                    prev = st
            L.raise_pins()
        defs = {}
        for vis in sorted(set(visible)):
            if rng.random() < 0.6:
                a, b = rng.choice([0.5, -1.0, 2.0]), rng.choice([0.0, 0.125])
                new = f"V{vis}"
                top.add_param(vis, (lambda a=a, b=b, new=new: (lambda **kw: a * kw[new] + b))(), {new: rng.choice([0.25, -0.5])})
                defs[vis] = new
        subs = top.split()
        calls = [{}]
        news = sorted(defs.values())
        if news:
            calls.append({news[0]: 0.7})
            calls.append({n_: rng.choice([0.3, -0.6, 0.9]) for n_ in news})
            calls.append({news[-1]: np.array([0.1, 0.4, -0.2])})
        plain = [v for v in sorted(set(visible)) if v not in defs]
        if plain:
            calls.append({plain[0]: 0.45, **({news[0]: -0.3} if news else {})})
        for kw in calls:
            ref = top.solve(**kw)
            for sub in subs:
                got = sub.solve(**kw)
                for p_ in got.pin_dic:
                    for q_ in got.pin_dic:
                        d = np.max(np.abs(np.asarray(got.S)[:, got.pin_dic[p_], got.pin_dic[q_]] - np.asarray(ref.S)[:, ref.pin_dic[p_], ref.pin_dic[q_]]))
                        if d > 1e-12:
                            ctx.violation("C12:param-definitions", f"a sub-solver of split() and the original differ at ({p_.name},{q_.name}) by {d:.3e} for "
                                          f"parameters {sorted(kw)} (add_param definitions {defs}, hierarchical blocks present)", rep)
                            return False
    except Exception as e:  # noqa
        ctx.violation(f"C12:param-definitions-raised-{type(e).__name__}", f"split with parameter definitions raised {type(e).__name__}: {str(e)[:70]}", rep)
        return False
    return True


def run(ctx):
    for i in range(ctx.budget(40, 400)):
        param_defs_case(ctx, f"{ctx.seed}:{ctx.scale}:{i}")
    rng = ctx.subrng("c12")
    n = ctx.budget(300, 5000)
    nmax = 8 if ctx.tier == "quick" else 14
    for i in range(n):
        if ctx.time_left() < 0:
            break
        pcirc, order, lo, assigns, setp = gen_case(rng, nmax)
        pcirc["exposed"] = []
        replay = {"pcirc": c04.pcirc_json(pcirc), "order": order, "link_order": lo, "setp": {k: gen.frac_str(v) for k, v in setp.items()},
                  "assigns": [{k: gen.frac_str(v) for k, v in a.items()} for a in assigns]}
        comps = uf_components(len(pcirc["comps"]), pcirc["links"])
        ctx.case(replay, nontrivial=len(comps) >= 2 and bool(pcirc["links"]),
                 tags=cs.circuit_tags(dict(pcirc, exposed=[])) + [f"parts:{min(len(comps), 5)}"],
                 sample={"n": len(pcirc["comps"]), "links": pcirc["links"], "order": order} if i < 2 else None)
        check(ctx, pcirc, order, lo, assigns, replay, setp)


def replay(ctx, data):
    from fractions import Fraction
    if data.get("kind") == "param-defs":
        param_defs_case(ctx, data["seed"])
        if ctx.violations:
            return False, ctx.violations[0]["what"]
        return True, "sub-solvers with parameter definitions answer like the original"
    pcirc = c04.pcirc_from_json(data["pcirc"])
    assigns = [{k: Fraction(v) for k, v in a.items()} for a in data["assigns"]]
    check(ctx, pcirc, data["order"], data["link_order"], assigns, data, {k: Fraction(v) for k, v in data.get("setp", {}).items()})
    if ctx.violations:
        return False, ctx.violations[0]["what"]
    return True, "split() returns the connected components and they behave like the original"
