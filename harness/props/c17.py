"""C17 — the active-solver stack follows with-block nesting.
Tie: (T) enter/exit behaviour and the helper table regenerated from the source; (H) random nested
programs executed with real `with` statements vs `Stack.execList`; oracle: lekkersim.sol_list before/after
(by identity) and which solver's state each helper changed."""
from __future__ import annotations

import impl

RULE = ("random programs over {helper call, raise, with <solver>: body, try: body except} with depth <= 6 (thorough 8), "
        "3 solvers used re-entrantly, 15 helper kinds (put with and without an immediate connection); distinct = distinct program tree; non-trivial = contains a "
        "nested with-block and at least one helper")
TRUSTED = ["translator harness/translate/tables.py + probes.py (the with-protocol and every helper kind executed on a re-entrant stack; facts read off the effect)",
           "CPython's `with` protocol (__exit__ is called on normal and exceptional exit; exceptions propagate unless suppressed)"]
ASSUMPTIONS = ["helpers are observed through the solver state they modify (structures, pin_mapping, default_params, monitor_st, name of the solved model)"]
EXPLANATION = "C17_balanced / C17_innermost by structural induction on programs; helper table by `decide`"


class Boom(Exception):
    pass


HELPERS = ["Model.put", "Solver.put", "putpin", "Pin.put", "raise_pins", "set_default_params",
           "update_default_params", "add_param", "solve", "add_structure_to_monitors", "Structure.raise_pins", "connect",
           "Model.put+connect", "Solver.put+connect", "connect_all"]


def gen_prog(rng, depth, nsolvers=3, p_raise=0.12):
    n = rng.randint(1, 4)
    out = []
    for _ in range(n):
        r = rng.random()
        if depth > 0 and r < 0.35:
            out.append({"with": rng.randrange(1, nsolvers + 1), "body": gen_prog(rng, depth - 1, nsolvers, p_raise)})
        elif depth > 0 and r < 0.45:
            out.append({"try": gen_prog(rng, depth - 1, nsolvers, p_raise)})
        elif r < 0.45 + p_raise:
            out.append({"raise": 1})
        elif r < 0.45 + p_raise + 0.08:
            out.append({"fail": rng.randrange(2)})       # a call that is rejected and whose exception the caller catches on the spot
        else:
            out.append({"h": rng.randrange(len(HELPERS))})
    return out


def prog_stats(prog, depth=0):
    d, nh, nw = depth, 0, 0
    for s in prog:
        if "h" in s:
            nh += 1
        elif "with" in s:
            nw += 1
            a, b, c = prog_stats(s["body"], depth + 1)
            d, nh, nw = max(d, a), nh + b, nw + c
        elif "try" in s:
            a, b, c = prog_stats(s["try"], depth)
            d, nh, nw = max(d, a), nh + b, nw + c
    return d, nh, nw


class World:
    """three named solvers plus the default one at the bottom of sol_list; state fingerprints per solver"""

    def __init__(self):
        L = impl.lk()
        self.L = L
        self.orig = list(L.sol_list)
        L.sol_list[:] = [L.Solver()]            # a fresh default solver at the bottom for this case
        self.base = list(L.sol_list)
        self.solvers = {0: L.sol_list[-1]}
        for k in (1, 2, 3):
            self.solvers[k] = L.Solver(name=f"S{k}")
        self.counter = 0
        self.placed = {k: [] for k in self.solvers}

    def fingerprint(self, k):
        s = self.solvers[k]
        return (len(s.structures), tuple(sorted(p.name for p in s.pin_mapping)), tuple(sorted((a, repr(b)) for a, b in s.default_params.items())),
                len(s.monitor_st), len(s.connections), tuple(sorted(s.param_mapping)))

    def fingerprints(self):
        return {k: self.fingerprint(k) for k in self.solvers}

    def top_id(self):
        top = self.L.sol_list[-1]
        for k, s in self.solvers.items():
            if s is top:
                return k
        return None

    def call(self, h):
        """perform helper h; returns the id of the solver it acted on as observed (or None if unobservable)"""
        L = self.L
        name = HELPERS[h]
        self.counter += 1
        c = self.counter
        before = self.fingerprints()
        observed = None
        active = self.top_id()      # used only to pick *arguments* that make the effect observable

        def two_port():
            self.counter += 1
            k = self.counter
            return L.Model(pin_dic={L.Pin(f"m{k}a"): 0, L.Pin(f"m{k}b"): 1}, Smatrix=__import__("numpy").array([[0, 1], [1, 0]], complex))
        def everywhere():
            m = two_port()
            st = L.Structure(model=m)
            for sv in self.solvers.values():
                sv.add_structure(st)
            return m, st
        if name == "Model.put":
            two_port().put()
        elif name == "Solver.put":
            inner = L.Solver(name=f"inner{c}")
            im = two_port()
            ist = L.Structure(model=im)
            inner.add_structure(ist)
            inner.map_pins({L.Pin(f"in{c}a"): (ist, list(im.pin_dic)[0]), L.Pin(f"in{c}b"): (ist, list(im.pin_dic)[1])})
            inner.put()
        elif name == "connect_all":
            # two mode-expanded two-ports present in the active solver, wired by base name through the module-level helper
            ma, mb = two_port().expand_mode(["TE", "TM"]), two_port().expand_mode(["TE", "TM"])
            a, b = L.Structure(model=ma), L.Structure(model=mb)
            tgt = self.solvers[active if active is not None else 0]
            tgt.add_structure(a)
            tgt.add_structure(b)
            before = self.fingerprints()
            L.connect_all(a, sorted({p.basename for p in ma.pin_dic})[1], b, sorted({p.basename for p in mb.pin_dic})[0])
        elif name == "Model.put+connect":
            # place and wire in one call: the target structure is present in every solver, so the call is valid wherever it lands
            m, st = everywhere()
            before = self.fingerprints()
            nm = two_port()
            nm.put(list(nm.pin_dic)[0].name, (st, list(m.pin_dic)[0]))
        elif name == "Solver.put+connect":
            m, st = everywhere()
            inner = L.Solver(name=f"inner{c}")
            im = two_port()
            ist = L.Structure(model=im)
            inner.add_structure(ist)
            inner.map_pins({L.Pin(f"in{c}a"): (ist, list(im.pin_dic)[0]), L.Pin(f"in{c}b"): (ist, list(im.pin_dic)[1])})
            before = self.fingerprints()
            inner.put(f"in{c}a", (st, list(m.pin_dic)[0]))
        elif name == "putpin":
            m, st = everywhere()
            before = self.fingerprints()
            L.putpin(f"pp{c}", (st, list(m.pin_dic)[0]))
        elif name == "Pin.put":
            m, st = everywhere()
            before = self.fingerprints()
            L.Pin(f"pq{c}").put((st, list(m.pin_dic)[0]))
        elif name == "raise_pins":
            # make sure there is something to raise in *every* solver so the target is observable
            for k, s in self.solvers.items():
                st = L.Structure(model=L.Model(pin_dic={L.Pin(f"r{c}k{k}"): 0}))
                s.add_structure(st)
            before = self.fingerprints()
            L.raise_pins()
        elif name == "set_default_params":
            L.set_default_params({"wl": None, f"d{c}": 1.0})
        elif name == "update_default_params":
            L.update_default_params({f"u{c}": 2.0})
        elif name == "add_param":
            for k, s in self.solvers.items():
                s.default_params[f"old{c}"] = 1.0
            before = self.fingerprints()
            L.add_param(f"old{c}", (lambda **kw: 1.0), {f"new{c}": 3.0})
        elif name == "solve":
            for k, s in self.solvers.items():
                if not s.structures:
                    s.add_structure(L.Structure(model=two_port()))
            m = L.solve(wl=1.0)
            for k, s in self.solvers.items():
                if m.name == s.name and s.name is not None:
                    observed = k
            if observed is None and m.name is None:
                observed = 0
            return observed
        elif name == "add_structure_to_monitors":
            # a structure that is present in every solver's structure list would be ambiguous; use per-solver ones
            sts = {}
            for k, s in self.solvers.items():
                st = L.Structure(model=two_port())
                s.add_structure(st)
                sts[k] = st
            before = self.fingerprints()
            L.add_structure_to_monitors(sts[active if active is not None else 0])
            after = self.fingerprints()
            for s in self.solvers.values():
                s.monitor_st.clear()        # keep later solves monitor-free (C10 covers monitors)
            changed = [k for k in self.solvers if before[k] != after[k]]
            return changed[0] if len(changed) == 1 else (None if not changed else ("many", tuple(changed)))
        elif name == "Structure.raise_pins":
            m, st = everywhere()
            before = self.fingerprints()
            if c % 3 == 0:
                st.raise_pins()
            elif c % 3 == 1:
                st.raise_pins([list(m.pin_dic)[0]], [L.Pin(f"rp{c}")])          # explicit pins, renamed at the top
            else:
                st.raise_pins([p.name for p in m.pin_dic], [f"rq{c}a", f"rq{c}b"])   # by names
        elif name == "connect":
            ma, mb = two_port(), two_port()
            a = L.Structure(model=ma)
            b = L.Structure(model=mb)
            tgt = self.solvers[active if active is not None else 0]
            tgt.add_structure(a)
            tgt.add_structure(b)
            before = self.fingerprints()
            L.connect((a, list(ma.pin_dic)[1]), (b, list(mb.pin_dic)[0]))
        after = self.fingerprints()
        changed = [k for k in self.solvers if before[k] != after[k]]
        if len(changed) == 1:
            observed = changed[0]
        elif len(changed) == 0:
            observed = None
        else:
            observed = ("many", tuple(changed))
        return observed


def run_impl(prog):
    """execute the program with real with-blocks; returns (final stack ids, events, outcome, stack_ok_at_each_step)"""
    W = World()
    L = W.L
    events = []
    problems = []
    fails = []

    def stack_ids():
        ids = []
        for s in L.sol_list[len(W.base) - 1:]:
            k = [kk for kk, ss in W.solvers.items() if ss is s]
            ids.append(k[0] if k else "?")
        return list(reversed(ids))       # top first, like the model

    def run_block(block):
        for st in block:
            if "h" in st:
                try:
                    obs = W.call(st["h"])
                except Boom:
                    raise
                except Exception as e:  # a helper that fails is itself an exception leaving the block
                    events.append((st["h"], "exc:" + type(e).__name__))
                    raise Boom() from e
                events.append((st["h"], obs))
            elif "raise" in st:
                raise Boom()
            elif "fail" in st:
                # an operation the package legitimately rejects, caught by the caller right away: nothing may be left behind
                import numpy as _np
                try:
                    if st["fail"] == 0:
                        L.solve(verif_a=_np.array([1.0, 2.0]), verif_b=_np.array([1.0, 2.0, 3.0]))      # sweeps of different lengths
                    elif st["fail"] == 1:
                        ghost = L.Structure(model=L.Model(pin_dic={L.Pin("g0"): 0, L.Pin("g1"): 1}))
                        L.connect((ghost, L.Pin("g0")), (ghost, L.Pin("g1")))                               # structure is in no solver
                    else:
                        raise RuntimeError("not rejected")
                except Boom:
                    raise
                except Exception as e:  # noqa
                    if isinstance(e, RuntimeError) and str(e) == "not rejected":
                        pass
                    fails.append(type(e).__name__)
            elif "with" in st:
                with W.solvers[st["with"]]:
                    run_block(st["body"])
            elif "try" in st:
                try:
                    run_block(st["try"])
                except Boom:
                    pass
    before = list(L.sol_list)
    out = "normal"
    try:
        run_block(prog)
    except Boom:
        out = "raised"
    except Exception as e:  # noqa  (an exception that is not the program's own: raised by __enter__/__exit__ themselves)
        out = f"crashed:{type(e).__name__}: {str(e)[:60]}"
    after = list(L.sol_list)
    same = len(before) == len(after) and all(a is b for a, b in zip(before, after))
    final = stack_ids()
    # restore the global stack whatever happened, so later cases are independent
    L.sol_list[:] = W.orig
    return final, events, out, same


def to_model(prog):
    """a rejected call caught on the spot is, for the stack model, an exception raised and caught in place"""
    out = []
    for st in prog:
        if "fail" in st:
            out.append({"try": [{"raise": 1}]})
        elif "with" in st:
            out.append({"with": st["with"], "body": to_model(st["body"])})
        elif "try" in st:
            out.append({"try": to_model(st["try"])})
        else:
            out.append(st)
    return out


def check_prog(ctx, prog):
    final, events, out, same = run_impl(prog)
    replay = {"prog": prog}
    if out.startswith("crashed:"):
        ctx.violation("C17:with-protocol-raised", f"entering or leaving a with-block raised by itself ({out[8:]}); stack (top first) now {final}", replay)
        return False
    if not same:
        ctx.violation("C17:stack-unbalanced", f"sol_list after the program differs from before (top-first ids now {final})", replay)
        return False
    ans = ctx.driver.ask({"op": "stack", "stack": [0], "prog": to_model(prog)})
    if "events" not in ans:
        ctx.disagreement("C17.model.exec", f"model: {ans}", replay)
        return True
    mev = [(h, s) for h, s in ans["events"]]
    ok = True
    # oracle: every observed helper target must be the innermost enclosing with-block's solver = model's event
    k = 0
    for (h, obs) in events:
        if isinstance(obs, str) and obs.startswith("exc:"):
            ctx.violation(f"C17:helper-raised:{HELPERS[h]}", f"helper {HELPERS[h]} raised {obs[4:]}", replay)
            return False
        if k >= len(mev) or mev[k][0] != h:
            ctx.disagreement("C17.model.exec", "event sequences differ in shape", replay)
            return True
        exp = mev[k][1]
        k += 1
        if obs is None:
            ctx.tag("helper:unobservable:" + HELPERS[h])
            continue
        if obs != exp:
            ctx.violation(f"C17:wrong-target:{HELPERS[h]}", f"helper {HELPERS[h]} acted on solver {obs}, innermost active solver is {exp}", replay)
            ok = False
    if ok and (len(mev) != len(events) or ans["out"] != out or ans["stack"] != final):
        ctx.disagreement("C17.model.exec", f"model out={ans['out']} stack={ans['stack']} events={len(mev)} vs impl {out} {final} {len(events)}", replay)
    return ok


def run(ctx):
    rng = ctx.subrng("c17")
    n = ctx.budget(500, 10000)
    maxd = 6 if ctx.tier == "quick" else 8
    for i in range(n):
        if ctx.time_left() < 0:
            break
        prog = gen_prog(rng, rng.randint(1, maxd))
        d, nh, nw = prog_stats(prog)
        ctx.case(prog, nontrivial=(d >= 2 and nh >= 1), tags=[f"depth:{d}", "has-raise" if '"raise"' in str(prog).replace("'", '"') else "no-raise"],
                 sample=prog if i < 2 else None)
        check_prog(ctx, prog)


def replay(ctx, data):
    check_prog(ctx, data["prog"])
    if ctx.violations:
        return False, ctx.violations[0]["what"]
    return True, "stack balanced and helpers hit the innermost solver"
