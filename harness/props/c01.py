"""C01 — solved S-matrix = exact solution of the network equations.
Tie: (H) Solver.solve vs `NetD.solveWith pySched` (the function of theorem C01_solve_solves) over exact
Gaussian rationals; oracle: independent numpy global solve of (1 - S P) b = S E u."""
from __future__ import annotations

import copy

import numpy as np

import circuits as cs
import gen

RULE = ("random circuits: 1-6 (thorough 1-10) components with 1-4 ports, dyadic complex contractive matrices "
        "(general / symmetric / reflectionless / sparse), random partial matching of pins biased towards multi-links "
        "and cycles, random exposure subset and names, shuffled pin->index maps; plus a self-connection stream and "
        "a stream with an exactly resonant first pair; distinct = distinct circuit description; non-trivial = at "
        "least two components and one link")
TRUSTED = ["numpy global reference solve (oracle) and its conditioning estimate",
           "the Lean runtime executing the driver (GMP rationals); Mat.inv? itself is proved sound and complete (Mat.inv?_isSome_iff)"]
ASSUMPTIONS = ["every merge step's inner system is invertible (otherwise the code raises LinAlgError: checked as outcome class)",
               "component matrices are exact dyadic rationals so model and implementation receive identical inputs"]
EXPLANATION = ("C01_solve_solves: for every well-formed network, exposure and schedule the executable solve returns the "
               "solution operator of the network relation; the same executable is compared with Solver.solve")


def check_circuit(ctx, circ, kind, record=True):
    """returns True iff the implementation's matrix satisfies the oracle (or it rightly rejects)"""
    Tref, cond, _, _ = gen.reference_solve(circ)
    tol = cs.TOL * max(1.0, cond)
    out, T = cs.impl_solve(circ)
    selfl = cs.has_self_link(circ)
    replay = {"circuit": gen.circuit_json(circ), "kind": kind}
    if out.startswith("build:"):
        if selfl:
            ctx.tag("self-link:rejected-at-connect")
            return True           # not accepted => nothing silently left out
        ctx.violation(f"C01:build-{out}", f"a valid circuit was rejected while building ({out})", replay)
        return False
    if out != "ok":
        if out == "singular" and (kind == "resonant" or cond > 1e8):
            ctx.tag("outcome:singular-raised")
            return True
        ctx.violation(f"C01:solve-{out}", f"solve raised {out} on a well-posed circuit (cond {cond:.1e})", replay)
        return False
    if cond > 1e8:
        ctx.tag("skipped:ill-conditioned")
        return True
    err = float(np.max(np.abs(T - Tref))) if T.size else 0.0
    if not (err <= tol):
        sig = "C01:self-link" if selfl and matches_without_self_links(circ, T) else "C01:wrong-matrix"
        ctx.violation(sig, f"solved matrix differs from the network solution by {err:.3e}"
                      + (" (the self-connection was accepted by connect() and ignored by solve())" if sig == "C01:self-link" else ""),
                      replay)
        return False
    if record and not selfl:
        mo, Tm = cs.model_solve(ctx, circ)
        if mo != "ok":
            ctx.disagreement("C01.model.solve", f"model: {mo}, implementation ok", replay)
        else:
            d = float(np.max(np.abs(Tm - T))) if T.size else 0.0
            if d > tol:
                ctx.disagreement("C01.model.solve", f"exact model and implementation differ by {d:.3e}", replay)
    return True


def matches_without_self_links(circ, T):
    c2 = copy.deepcopy(circ)
    c2["links"] = [l for l in c2["links"] if l[0] != l[2]]
    Tref, cond, _, _ = gen.reference_solve(c2)
    return T.shape == Tref.shape and (T.size == 0 or float(np.max(np.abs(T - Tref))) <= cs.TOL * max(1.0, cond))


def add_self_link(rng, circ):
    """turn two free pins of one component into a self-connection (their exposures are dropped)"""
    used = {(a, p) for (a, p, b, q) in circ["links"]} | {(b, q) for (a, p, b, q) in circ["links"]}
    cands = []
    for c, comp in enumerate(circ["comps"]):
        free = [p for p in comp["pins"] if (c, p) not in used]
        if len(free) >= 2:
            cands.append((c, free))
    if not cands:
        return None
    c, free = rng.choice(cands)
    p, q = rng.sample(free, 2)
    c2 = copy.deepcopy(circ)
    c2["links"].append((c, p, c, q))
    c2["exposed"] = [e for e in c2["exposed"] if (e[1], e[2]) not in ((c, p), (c, q))]
    return c2


def resonant_circuit(rng):
    """two components whose first merge has an exactly singular inner system (1 - 1*1)"""
    F = gen.Fraction
    one, zero = (F(1), F(0)), (F(0), F(0))
    A = {"pins": ["a", "x"], "idx": [0, 1], "S": [[zero, one], [one, one]]}   # reflection 1 at pin x
    B = {"pins": ["y", "b"], "idx": [0, 1], "S": [[one, one], [one, zero]]}   # reflection 1 at pin y
    return {"comps": [A, B], "links": [(0, "x", 1, "y")], "exposed": [("X0", 0, "a"), ("X1", 1, "b")]}


def run(ctx):
    rng = ctx.subrng("c01")
    n = ctx.budget(500, 5000)
    nmax = 6 if ctx.tier == "quick" else 10
    kinds = ["general", "general", "symmetric", "reflectionless", "sparse"]
    for i in range(n):
        if ctx.time_left() < 0:
            break
        kind = rng.choice(kinds)
        circ = gen.random_circuit(rng, ncomp_max=nmax, ports_max=4, kind=kind,
                                  p_link=rng.choice([0.4, 0.7, 0.9]), p_expose=rng.choice([0.5, 0.8, 1.0]))
        stream = "regular"
        if rng.random() < 0.08:
            c2 = add_self_link(rng, circ)
            if c2 is not None:
                circ, stream = c2, "self-link"
        ctx.case(gen.circuit_json(circ), nontrivial=cs.nontrivial(circ),
                 tags=cs.circuit_tags(circ) + [f"kind:{kind}", f"stream:{stream}"],
                 sample={"stream": stream, "comps": [len(c["pins"]) for c in circ["comps"]],
                         "links": circ["links"], "exposed": circ["exposed"]} if i < 3 else None)
        ok = check_circuit(ctx, circ, stream)
        if not ok:
            shrink_last(ctx, circ, stream)
    # step-level tie of the executable join / elimination loop: every composite created along a forced schedule
    for i in range(ctx.budget(60, 600)):
        if ctx.time_left() < 0:
            break
        circ = gen.random_circuit(rng, ncomp_max=5 if ctx.tier == "quick" else 8, ports_max=4, kind=rng.choice(kinds),
                                  p_link=rng.choice([0.5, 0.8]), p_expose=0.8)
        if len(circ["comps"]) < 2:
            continue
        check_steps(ctx, circ, cs.random_schedule(len(circ["comps"]), rng))
    # resonant first pair: must raise (or be right), never return a wrong finite matrix
    circ = resonant_circuit(rng)
    ctx.case(gen.circuit_json(circ), tags=["stream:resonant"])
    out, T = cs.impl_solve(circ)
    if out == "ok" and T is not None and np.all(np.isfinite(T)):
        ctx.violation("C01:resonant-finite", "exactly resonant pair returned a finite matrix", {"circuit": gen.circuit_json(circ), "kind": "resonant"})
    else:
        ctx.tag("outcome:singular-raised" if out != "ok" else "outcome:non-finite")
    if ctx.tier == "thorough" or ctx.scale > 1:
        exhaustive_small(ctx)


def check_steps(ctx, circ, sched):
    """correspondence of `St.join` / `Solve.stepWith` (the functions of C01_join_sound / C01_solve_solves) with the real
    `Structure.join` at every merge of a forced schedule: same surviving pins, same coefficient between every pair of them,
    same members.  Compared by pin, never by position: the internal pin order is not observable."""
    rep = {"circuit": gen.circuit_json(circ), "kind": "steps", "sched": [list(p) for p in sched]}
    ctx.case(rep, tags=["stream:step-trace"])
    oi, si, om, sm = cs.traced_solve(ctx, circ, sched)
    if oi != "ok" or om != "ok":
        if (oi == "singular") != (om == "singular") and not (oi == "ok" and om == "ok"):
            ctx.tag(f"step-trace:outcomes:{oi}/{om}")
        return True
    if len(si) != len(sm):
        ctx.disagreement("C01.model.steps", f"implementation created {len(si)} composites, the model {len(sm)} (schedule {sched})", rep)
        return False
    _, cond, _, _ = gen.reference_solve(circ)
    tol = cs.TOL * max(1.0, cond) * 10
    for t, ((pd, S, mem), (pins, Sm, memm)) in enumerate(zip(si, sm)):
        if set(pd) != set(pins):
            ctx.disagreement("C01.model.steps", f"merge {t}: surviving pins differ: implementation {sorted(pd)}, model {sorted(pins)}", rep)
            return False
        if mem != memm:
            ctx.disagreement("C01.model.steps", f"merge {t}: members differ: implementation {mem}, model {memm}", rep)
            return False
        if pins:
            ix = [pd[p] for p in pins]
            d = float(np.max(np.abs(S[np.ix_(ix, ix)] - Sm)))
            if not d <= tol:
                ctx.disagreement("C01.model.steps", f"merge {t}: composite matrices differ by {d:.3e} (by pin pair)", rep)
                return False
        ctx.tag("step-trace:composites-compared")
    return True


def shrink_last(ctx, circ, stream):
    """replace the replay of the most recent violation by a shrunk one (same signature)"""
    if not ctx.violations:
        return
    v = ctx.violations[-1]
    sig = v["signature"]

    def fails(c):
        sub = type(ctx)(ctx.pid, ctx.tier, ctx.seed)
        sub._driver = ctx._driver
        sub.findings = ctx.findings
        check_circuit(sub, c, stream, record=False)
        return any(x["signature"] == sig for x in sub.violations)
    if v.get("shrunk"):
        return
    small = cs.shrink_circuit(circ, fails)
    v["replay"] = {"circuit": gen.circuit_json(small), "kind": stream}
    v["shrunk"] = True


def exhaustive_small(ctx):
    """support (not proof): every wiring of 2-3 two-port components, every exposure of the free pins"""
    import itertools
    rng = ctx.subrng("c01-small")
    count = 0
    for ncomp in (2, 3):
        pins = [(c, f"p{c}x{i}") for c in range(ncomp) for i in range(2)]
        # all partial matchings between pins of different components
        def matchings(pool):
            if not pool:
                yield []
                return
            a = pool[0]
            rest = pool[1:]
            yield from matchings(rest)
            for k, b in enumerate(rest):
                if b[0] != a[0]:
                    for m in matchings(rest[:k] + rest[k + 1:]):
                        yield [(a[0], a[1], b[0], b[1])] + m
        for links in matchings(pins):
            used = {(a, p) for (a, p, b, q) in links} | {(b, q) for (a, p, b, q) in links}
            free = [x for x in pins if x not in used]
            for r in range(0, len(free) + 1):
                for sub in itertools.combinations(free, r):
                    comps = [{"pins": [f"p{c}x0", f"p{c}x1"], "idx": [0, 1], "S": gen.contractive(rng, 2)} for c in range(ncomp)]
                    circ = {"comps": comps, "links": links, "exposed": [(f"X{k}", c, p) for k, (c, p) in enumerate(sub)]}
                    ctx.case(gen.circuit_json(circ), nontrivial=bool(links), tags=["stream:exhaustive-small"])
                    check_circuit(ctx, circ, "enum")
                    count += 1
    ctx.extra["exhaustive_small_wirings"] = count


def replay(ctx, data):
    circ = gen.circuit_from_json(data["circuit"])
    if data.get("kind") == "steps":
        check_steps(ctx, circ, [tuple(p) for p in data["sched"]])
        if ctx.disagreements:
            return False, ctx.disagreements[0]["what"]
        return True, "every composite of the forced schedule agrees with the model"
    ok = check_circuit(ctx, circ, data.get("kind", "regular"))
    if ctx.violations:
        return False, ctx.violations[0]["what"]
    return True, "implementation's matrix equals the network solution" + (
        f"; model disagreement: {ctx.disagreements[0]['what']}" if ctx.disagreements else "")
