"""C03 — independence of declaration order and elimination order.
Tie: (H) the real elimination loop driven through the LEKKERSIM_VERIF merge hook with *forced* merge
schedules, vs `NetD.solveWith (forcedSched …)` and vs the default heuristic; oracle: numpy global solve."""
from __future__ import annotations

import numpy as np

import circuits as cs
import gen

RULE = ("random circuits of 2-4 components (thorough 2-5): every sequence of ordered pairs of live structures "
        "(connected or not) is forced on the real elimination loop through the merge hook (all 12/144 schedules for "
        "3/4 components, a sample for 5+), plus random permutations of structure / connection / exposure declarations "
        "and swapped connection ends; distinct = (circuit, schedule or permutation); non-trivial = at least one link")
TRUSTED = ["merge hook in lekkersim/sol.py (two guarded lines) reporting / substituting the merged pair",
           "numpy global reference solve (oracle)"]
ASSUMPTIONS = ["both schedules succeed (every inner system met along the way is invertible)"]
EXPLANATION = "C03_schedule_independent: any two successful schedules give the same exposed coefficients"


def check_schedule(ctx, circ, Tref, tol, sched, replay_base, compare_model=True):
    log = []
    out, T = cs.impl_solve(circ, hook=cs.forced_schedule_hook(sched, log))
    replay = dict(replay_base)
    replay["sched"] = [list(p) for p in sched] if sched is not None else None
    if out != "ok":
        if out == "singular":
            ctx.tag("schedule:singular-intermediate")
            return True
        ctx.violation(f"C03:schedule-{out}", f"forced merge schedule {sched} raised {out}", replay)
        return False
    if sched is not None and log[:len(sched)] and False:
        pass
    err = float(np.max(np.abs(T - Tref))) if T.size else 0.0
    if not (err <= tol):
        ctx.violation("C03:schedule-dependent", f"merge schedule {sched} changes the result by {err:.3e}", replay)
        return False
    if compare_model and sched is not None:
        mo, Tm = cs.model_solve(ctx, circ, sched=sched)
        if mo != "ok":
            ctx.disagreement("C03.model.schedule", f"model: {mo} for schedule {sched}, implementation ok", replay)
        elif T.size and float(np.max(np.abs(Tm - T))) > tol:
            ctx.disagreement("C03.model.schedule", f"model and implementation differ for schedule {sched}", replay)
    return True


def check_permutation(ctx, circ, Tref, tol, rng, replay_base):
    nc, nl, ne = len(circ["comps"]), len(circ["links"]), len(circ["exposed"])
    co = list(range(nc)); rng.shuffle(co)
    lo = list(range(nl)); rng.shuffle(lo)
    eo = list(range(ne)); rng.shuffle(eo)
    fl = [rng.random() < 0.5 for _ in range(nl)]
    out, T = cs.impl_solve(circ, comp_order=co, link_order=lo, flips=fl, exp_order=eo)
    replay = dict(replay_base)
    replay["perm"] = {"comp_order": co, "link_order": lo, "flips": fl, "exp_order": eo}
    if out != "ok":
        if out == "singular":
            ctx.tag("permutation:singular-intermediate")
            return True
        ctx.violation(f"C03:permutation-{out}", f"permuted declaration raised {out}", replay)
        return False
    err = float(np.max(np.abs(T - Tref))) if T.size else 0.0
    if not (err <= tol):
        ctx.violation("C03:declaration-dependent", f"declaration order changes the result by {err:.3e}", replay)
        return False
    return True


def run(ctx):
    rng = ctx.subrng("c03")
    ncirc = ctx.budget(40, 300)
    nperm = ctx.budget(200, 2000)
    nmax = 4 if ctx.tier == "quick" else 5
    hook_seen = False
    for i in range(ncirc):
        if ctx.time_left() < 0:
            break
        circ = gen.random_circuit(rng, ncomp_max=nmax, ports_max=3, kind=rng.choice(["general", "sparse", "symmetric"]),
                                  p_link=0.8, p_expose=0.8)
        n = len(circ["comps"])
        if n < 2:
            continue
        Tref, cond, _, _ = gen.reference_solve(circ)
        if cond > 1e6:
            ctx.tag("skipped:ill-conditioned")
            continue
        tol = cs.TOL * max(1.0, cond)
        base = {"circuit": gen.circuit_json(circ)}
        limit = None if n <= 4 else 200
        scheds = cs.all_schedules(n, limit=limit, rng=rng)
        if ctx.tier == "quick" and n == 4:
            scheds = rng.sample(scheds, 48)
        ok = True
        for k, sc in enumerate(scheds):
            ctx.case((base, sc), nontrivial=bool(circ["links"]), tags=[f"sched:n{n}"] + (cs.circuit_tags(circ) if k == 0 else []),
                     sample={"comps": [len(c["pins"]) for c in circ["comps"]], "links": circ["links"], "sched": sc} if (i < 2 and k == 0) else None)
            ok = check_schedule(ctx, circ, Tref, tol, sc, base, compare_model=(k % 4 == 0))
            hook_seen = True
            if not ok:
                break
        # the default heuristic, with the hook only listening
        check_schedule(ctx, circ, Tref, tol, None, base)
    if not hook_seen:
        ctx.notes.append("no schedule was forced (no circuit with >= 2 components generated)")
    for i in range(nperm):
        if ctx.time_left() < 0:
            break
        circ = gen.random_circuit(rng, ncomp_max=6, ports_max=4, p_link=0.7, p_expose=0.8)
        Tref, cond, _, _ = gen.reference_solve(circ)
        if cond > 1e6:
            continue
        ctx.case(("perm", gen.circuit_json(circ), i), nontrivial=cs.nontrivial(circ), tags=["permutation"])
        check_permutation(ctx, circ, Tref, cs.TOL * max(1.0, cond), rng, {"circuit": gen.circuit_json(circ)})
    # sampled schedules on larger circuits
    nbig = ctx.budget(10, 200)
    for i in range(nbig):
        if ctx.time_left() < 0:
            break
        circ = gen.random_circuit(rng, ncomp_max=7, ports_max=3, p_link=0.8)
        n = len(circ["comps"])
        if n < 5:
            continue
        Tref, cond, _, _ = gen.reference_solve(circ)
        if cond > 1e6:
            continue
        for k in range(5):
            sc = cs.random_schedule(n, rng)
            ctx.case((gen.circuit_json(circ), sc), tags=[f"sched:n{n}:sampled"])
            check_schedule(ctx, circ, Tref, cs.TOL * max(1.0, cond), sc, {"circuit": gen.circuit_json(circ)}, compare_model=(k == 0))


def replay(ctx, data):
    circ = gen.circuit_from_json(data["circuit"])
    Tref, cond, _, _ = gen.reference_solve(circ)
    tol = cs.TOL * max(1.0, cond)
    if data.get("perm"):
        p = data["perm"]
        out, T = cs.impl_solve(circ, comp_order=p["comp_order"], link_order=p["link_order"], flips=p["flips"], exp_order=p["exp_order"])
        if out != "ok":
            return out == "singular", f"permuted declaration: {out}"
        err = float(np.max(np.abs(T - Tref))) if T.size else 0.0
        return err <= tol, f"permuted declaration deviates by {err:.3e}"
    sched = data.get("sched")
    sched = [tuple(p) for p in sched] if sched else None
    ok = check_schedule(ctx, circ, Tref, tol, sched, {"circuit": data["circuit"]})
    if ctx.violations:
        return False, ctx.violations[0]["what"]
    return True, "forced schedule gives the network solution"
