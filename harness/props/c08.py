"""C08 — composition preserves unitarity, passivity, reciprocity.
Oracles on the implementation's own matrix: S^H S = 1 (all free pins exposed, unitary parts), largest
singular value <= 1 (passive parts, any exposure), S = S^T (symmetric parts), get_output power sums."""
from __future__ import annotations

import numpy as np

import circuits as cs
import gen
import impl

RULE = ("three generator classes x random circuits (1-6 components, 1-4 ports): `unitary` = exact rational Cayley "
        "unitaries with every free pin exposed, `passive` = dyadic contractions with random partial exposure, "
        "`symmetric` = S = S^T; `unitary-sweep` = lossless circuits with tunable mirrors (reflectivity t, non-reciprocal phase g, "
        "reciprocal exactly at g = 0) solved point by point on one solver and then swept; `hier-edit` = two-level lossless hierarchies solved, the placed sub-solver edited in place, the same parent solved again; resonant (ill-conditioned) lossless circuits are skipped and counted; "
        "distinct = distinct circuit; non-trivial = at least two components and one link")
TRUSTED = ["numpy SVD / matrix products used by the oracle", "numpy global reference solve (conditioning filter only)"]
ASSUMPTIONS = ["every inner system met by the elimination loop is invertible",
               "rational unitaries are handed to numpy as nearest doubles (defect from unitarity ~1e-16)"]
EXPLANATION = ("kernel-level preservation theorems for the regenerated star product (any power functional / pairing), "
               "network-level reciprocity for every schedule; network-level unitarity/passivity by oracle")


def run_class(ctx, rng, cls, n, nmax):
    for i in range(n):
        if ctx.time_left() < 0:
            break
        if cls == "unitary":
            circ = gen.random_circuit(rng, ncomp_max=nmax, ports_max=3, unitary=True, p_link=rng.choice([0.3, 0.6]), p_expose=1.0)
        elif cls == "passive":
            circ = gen.random_circuit(rng, ncomp_max=nmax, ports_max=4, kind=rng.choice(["general", "sparse"]),
                                      p_link=0.7, p_expose=rng.choice([0.4, 0.7, 1.0]))
        else:
            circ = gen.random_circuit(rng, ncomp_max=nmax, ports_max=4, kind="symmetric", p_link=0.7, p_expose=0.8)
        Tref, cond, _, _ = gen.reference_solve(circ)
        ctx.case((cls, gen.circuit_json(circ)), nontrivial=cs.nontrivial(circ), tags=[f"class:{cls}"] + cs.circuit_tags(circ),
                 sample={"class": cls, "comps": [len(c["pins"]) for c in circ["comps"]], "links": circ["links"]} if i < 1 else None)
        if cond > 1e5:
            ctx.tag(f"skipped:ill-conditioned:{cls}")
            continue
        check(ctx, circ, cls, cond)


def check(ctx, circ, cls, cond):
    replay = {"circuit": gen.circuit_json(circ), "class": cls}
    tol = 1e-9 * max(1.0, cond) ** 2
    try:
        sol, sts = impl.build_solver(circ)
        mod = sol.solve()
        names = cs.exposed_names(circ)
        T = impl.solved_matrix(mod, names)[0]
    except Exception as e:  # noqa
        oc = impl.outcome_class(e)
        if oc == "singular":
            ctx.tag("outcome:singular-raised")
            return True
        ctx.violation(f"C08:solve-{oc}", f"solve raised {oc}", replay)
        return False
    n = T.shape[0]
    if cls == "unitary":
        d = float(np.max(np.abs(T.conj().T @ T - np.eye(n)))) if n else 0.0
        d2 = float(np.max(np.abs(T @ T.conj().T - np.eye(n)))) if n else 0.0
        if not (max(d, d2) <= tol):
            ctx.violation("C08:not-unitary", f"circuit of unitary parts, all pins exposed: |S^H S - 1| = {max(d, d2):.3e}", replay)
            return False
        # power balance through get_output for a random excitation
        if n:
            rng = np.random.default_rng(abs(hash(str(names))) % (2 ** 32))
            u = rng.normal(size=n) + 1j * rng.normal(size=n)
            try:
                out = mod.get_output({nm: complex(u[k]) for k, nm in enumerate(names)}, power=True)
                pin = float(np.sum(np.abs(u) ** 2))
                pout = float(sum(out[nm] for nm in names))
                if abs(pin - pout) > tol * max(1.0, pin):
                    ctx.violation("C08:power-balance", f"get_output power {pout} != input power {pin}", replay)
                    return False
            except Exception as e:  # noqa
                ctx.violation(f"C08:get_output-{impl.outcome_class(e)}", "get_output raised on a solved model", replay)
                return False
    elif cls == "passive":
        s = float(np.linalg.norm(T, 2)) if n else 0.0
        if not (s <= 1.0 + tol):
            ctx.violation("C08:gain", f"circuit of passive parts shows gain: largest singular value {s:.12f}", replay)
            return False
    else:
        d = float(np.max(np.abs(T - T.T))) if n else 0.0
        if not (d <= tol):
            ctx.violation("C08:not-reciprocal", f"circuit of reciprocal parts: |S - S^T| = {d:.3e}", replay)
            return False
    return True


def mirror_S(t, g=0):
    from fractions import Fraction as F
    r = 2 * t / (1 + t * t)
    tau = (1 - t * t) / (1 + t * t)
    er, ei = (1 - g * g) / (1 + g * g), 2 * g / (1 + g * g)
    return [[(r, F(0)), (-tau * ei, tau * er)], [(tau * ei, tau * er), (r, F(0))]]


def sweep_case(rng, nmax):
    """lossless circuit in which some two-ports are tunable mirrors S(t) sharing the swept parameter t"""
    from fractions import Fraction as F
    circ = gen.random_circuit(rng, ncomp_max=nmax, ports_max=3, unitary=True, p_link=0.6, p_expose=1.0)
    mirrors = [c for c, comp in enumerate(circ["comps"]) if len(comp["pins"]) == 2 and rng.random() < 0.7]
    if not mirrors:
        return None
    n = rng.randint(2, 5)
    ts = [F(rng.randint(-6, 6), 8) for _ in range(n)]
    if rng.random() < 0.6:
        ts[0] = F(0)
    # non-reciprocal phase of the mirrors: zero (exactly reciprocal parts) at the first point most of the time
    gs = [F(0) if rng.random() < 0.4 else F(rng.randint(-6, 6), 8) for _ in range(n)]
    if rng.random() < 0.7:
        gs[0] = F(0)
    return circ, mirrors, ts, gs


def check_sweep(ctx, circ, mirrors, ts, gs=None):
    L = impl.lk()
    TM = impl.tunable_mirror_class()
    from fractions import Fraction as F
    gs = [F(0)] * len(ts) if gs is None else gs
    replay = {"circuit": gen.circuit_json(circ), "class": "unitary-sweep", "mirrors": mirrors, "ts": [gen.frac_str(t) for t in ts],
              "gs": [gen.frac_str(g) for g in gs]}
    sts = []
    for c, comp in enumerate(circ["comps"]):
        if c in mirrors:
            inv = sorted(zip(comp["idx"], comp["pins"]))
            sts.append(L.Structure(model=TM([inv[0][1], inv[1][1]])))
        else:
            n = len(comp["pins"])
            sts.append(L.Structure(model=L.Model(pin_dic={L.Pin(p): i for p, i in zip(comp["pins"], comp["idx"])}, Smatrix=gen.mat_np(comp["S"], n, n))))
    try:
        sol = L.Solver()
        for st in sts:
            sol.add_structure(st)
        for (a, p, b, q) in circ["links"]:
            sol.connect(sts[a], p, sts[b], q)
        for (nm, c, p) in circ["exposed"]:
            sol.map_pins({L.Pin(nm): (sts[c], L.Pin(p))})
        # the same solver is first solved point by point (each solve sees what the previous one left behind), then swept
        Tseq = [impl.solved_matrix(sol.solve(t=float(t), g=float(g)), cs.exposed_names(circ))[0] for t, g in zip(ts, gs)]
        mod = sol.solve(t=np.array([float(t) for t in ts]), g=np.array([float(g) for g in gs]))
        T = impl.solved_matrix(mod, cs.exposed_names(circ))
    except Exception as e:  # noqa
        if impl.outcome_class(e) == "singular":
            ctx.tag("outcome:singular-raised")
            return True
        ctx.violation(f"C08:sweep-solve-{impl.outcome_class(e)}", f"sweep solve raised {type(e).__name__}", replay)
        return False
    for k, t in enumerate(ts):
        conc = {"comps": [dict(comp, S=mirror_S(t, gs[k])) if c in mirrors else comp for c, comp in enumerate(circ["comps"])],
                "links": circ["links"], "exposed": circ["exposed"]}
        _, cond, _, _ = gen.reference_solve(conc)
        if cond > 1e5:
            ctx.tag("skipped:ill-conditioned:unitary-sweep")
            continue
        Tk = T[k]
        n = Tk.shape[0]
        d = float(np.max(np.abs(Tk.conj().T @ Tk - np.eye(n)))) if n else 0.0
        if not (d <= 1e-9 * max(1.0, cond) ** 2):
            ctx.violation("C08:not-unitary-in-sweep", f"lossless circuit, sweep point {k} (t={t}): |S^H S - 1| = {d:.3e}", replay)
            return False
        Tk = Tseq[k]
        d = float(np.max(np.abs(Tk.conj().T @ Tk - np.eye(n)))) if n else 0.0
        if not (d <= 1e-9 * max(1.0, cond) ** 2):
            ctx.violation("C08:not-unitary-on-resolve", f"lossless circuit, solve number {k + 1} of the same solver (t={t}, g={gs[k]}): |S^H S - 1| = {d:.3e}", replay)
            return False
    return True


def hier_edit_case(ctx, rng, i):
    """lossless parts in a two-level hierarchy, every free pin exposed at both levels; the parent is solved, the placed
    sub-solver is edited in place (a lossless two-port is put in front of one of its exposed pins, or two exposed names
    are swapped) and the *same* parent is solved again: both results must be unitary"""
    L = impl.lk()
    nin, nout = rng.randint(1, 3), rng.randint(1, 2)
    mats, pins = [], []
    for c in range(nin + nout + 1):
        n = rng.randint(2, 3)
        mats.append(gen.rational_unitary(rng, n))
        pins.append([f"a{k}" for k in range(n)])
    extra = gen.rational_unitary(rng, 2)
    rep = {"class": "hier-edit", "nin": nin, "nout": nout, "mats": [gen.mat_json(m) for m in mats], "extra": gen.mat_json(extra),
           "seed": rng.randrange(2 ** 31)}
    ctx.case(rep, nontrivial=True, tags=["class:hier-edit"])
    return run_hier_edit(ctx, rep)


def run_hier_edit(ctx, rep):
    import random
    L = impl.lk()
    r = random.Random(rep["seed"])
    nin, nout = rep["nin"], rep["nout"]
    sizes = []
    mats = []
    for flat in rep["mats"]:
        n = int(round(len(flat) ** 0.5))
        mats.append(gen.json_mat_np(flat, n, n))
        sizes.append(n)
    extra = gen.json_mat_np(rep["extra"], 2, 2)
    mk = lambda c: L.Structure(model=L.Model(pin_dic={L.Pin(f"a{k}"): k for k in range(sizes[c])}, Smatrix=mats[c].copy()))

    def chain_and_expose(sol, sts, prefix):
        free = [(st, f"a{k}") for c, st in sts for k in range(sizes[c])]
        r.shuffle(free)
        used = set()
        # a few links between different structures
        for _ in range(r.randint(0, max(0, len(sts) - 1)) + (1 if len(sts) > 1 else 0)):
            cand = [(x, y) for x in free for y in free if x[0] is not y[0] and id(x[0]) < id(y[0]) and (id(x[0]), x[1]) not in used and (id(y[0]), y[1]) not in used]
            if not cand:
                break
            x, y = r.choice(cand)
            sol.connect(x[0], x[1], y[0], y[1])
            used.add((id(x[0]), x[1]))
            used.add((id(y[0]), y[1]))
        k = 0
        names = []
        for (st, p) in free:
            if (id(st), p) not in used:
                sol.map_pins({L.Pin(f"{prefix}{k}"): (st, L.Pin(p))})
                names.append(f"{prefix}{k}")
                k += 1
        return names
    try:
        child = L.Solver(name="child")
        csts = [(c, mk(c)) for c in range(nin)]
        for _, st in csts:
            child.add_structure(st)
        cnames = chain_and_expose(child, csts, "c")
        parent = L.Solver(name="parent")
        cst = L.Structure(solver=child)
        parent.add_structure(cst)
        osts = [(c, mk(c)) for c in range(nin, nin + nout)]
        for _, st in osts:
            parent.add_structure(st)
        # link some child pins to the other parts
        ofree = [(st, f"a{k}") for c, st in osts for k in range(sizes[c])]
        r.shuffle(ofree)
        linked = set()
        for nm in cnames:
            if ofree and r.random() < 0.5:
                st, p = ofree.pop()
                parent.connect(cst, nm, st, p)
                linked.add(nm)
        k = 0
        for nm in cnames:
            if nm not in linked:
                parent.map_pins({L.Pin(f"P{k}"): (cst, L.Pin(nm))})
                k += 1
        for (st, p) in ofree:
            parent.map_pins({L.Pin(f"P{k}"): (st, L.Pin(p))})
            k += 1

        def unit_defect(mod):
            T = np.array(mod.S)[0]
            n = T.shape[0]
            return float(np.max(np.abs(T.conj().T @ T - np.eye(n)))) if n else 0.0

        def well_posed():
            """condition number of the network system of the equivalent flat circuit (a closed lossless loop can resonate: the
            property speaks about well-posed circuits, and floating point does not always notice an exactly singular system)"""
            from common import parse_cfrac
            leaf, comps = {}, []
            def add_leaf(st, flat_S, n):
                leaf[id(st)] = len(comps)
                S = [[parse_cfrac(z) for z in flat_S[i * n:(i + 1) * n]] for i in range(n)]
                comps.append({"pins": [p.name for _, p in st.pin_list], "idx": list(range(n)), "S": S})
            known = {id(st): c for c, st in csts + osts}
            for st in child.structures + [x for x in parent.structures if x.solver is None]:
                if id(st) in known:
                    add_leaf(st, rep["mats"][known[id(st)]], sizes[known[id(st)]])
                else:
                    add_leaf(st, rep["extra"], 2)
            res = lambda t: child.pin_mapping[L.Pin(t[1].name)] if t[0] is cst else t
            key = lambda t: (leaf[id(t[0])], t[1].name)
            links = [key(a) + key(b) for a, b in child.connections.items()] + [key(res(a)) + key(res(b)) for a, b in parent.connections.items()]
            exposed = [(n_.name,) + key(res(t)) for n_, t in parent.pin_mapping.items()]
            _, cond, _, _ = gen.reference_solve({"comps": comps, "links": links, "exposed": exposed})
            return cond <= 1e6
        if not well_posed():
            ctx.tag("skipped:resonant-hierarchy")
            return True
        d1 = unit_defect(parent.solve())
        # in-place edit of the placed sub-solver
        kind = r.choice(["prepend", "swap"]) if len(cnames) >= 2 else "prepend"
        if kind == "prepend" and cnames:
            nm = r.choice(cnames)
            tgt = child.pin_mapping[L.Pin(nm)]
            st = L.Structure(model=L.Model(pin_dic={L.Pin("x"): 0, L.Pin("y"): 1}, Smatrix=extra.copy()))
            child.add_structure(st)
            child.pin_mapping.pop(L.Pin(nm))
            child.connect(st, "y", tgt[0], tgt[1])
            child.map_pins({L.Pin(nm): (st, L.Pin("x"))})
        elif kind == "swap":
            x, y = r.sample(cnames, 2)
            tx, ty = child.pin_mapping[L.Pin(x)], child.pin_mapping[L.Pin(y)]
            child.pin_mapping[L.Pin(x)], child.pin_mapping[L.Pin(y)] = ty, tx
        if not well_posed():
            ctx.tag("skipped:resonant-hierarchy")
            return True
        d2 = unit_defect(parent.solve())
        d3 = unit_defect(parent.solve())
    except Exception as e:  # noqa
        if impl.outcome_class(e) == "singular":
            ctx.tag("outcome:singular-raised")
            return True
        ctx.violation(f"C08:hier-edit-raised-{type(e).__name__}", f"lossless hierarchy, edit and re-solve raised {type(e).__name__}: {str(e)[:70]}", rep)
        return False
    for label, d in (("first solve", d1), ("after editing the placed sub-solver in place", d2), ("solved once more", d3)):
        if not (d <= 1e-7):
            if d > 1e3 or not np.isfinite(d):
                ctx.tag("skipped:resonant-hierarchy")
                return True
            ctx.violation("C08:not-unitary-hierarchy", f"hierarchy of lossless parts, every free pin exposed, {label}: |S^H S - 1| = {d:.3e}", rep)
            return False
    return True


def run(ctx):
    rng = ctx.subrng("c08")
    n = ctx.budget(100, 1500)
    nmax = 6 if ctx.tier == "quick" else 9
    for cls in ("unitary", "passive", "symmetric"):
        run_class(ctx, rng, cls, n, nmax)
    hrng = ctx.subrng("c08-hier")
    for i in range(ctx.budget(80, 800)):
        if ctx.time_left() < 0:
            break
        hier_edit_case(ctx, hrng, i)
    for i in range(ctx.budget(80, 1000)):
        if ctx.time_left() < 0:
            break
        sc = sweep_case(rng, nmax)
        if sc is None:
            continue
        circ, mirrors, ts, gs = sc
        ctx.case(("unitary-sweep", gen.circuit_json(circ), mirrors, [str(t) for t in ts], [str(g) for g in gs]), nontrivial=cs.nontrivial(circ),
                 tags=["class:unitary-sweep"] + (["first-point-zero"] if ts[0] == 0 else []) + (["first-point-reciprocal"] if gs[0] == 0 else [])
                 + (["non-reciprocal-later"] if gs[0] == 0 and any(g != 0 for g in gs[1:]) else []))
        check_sweep(ctx, circ, mirrors, ts, gs)


def replay(ctx, data):
    if data.get("class") == "hier-edit":
        run_hier_edit(ctx, data)
        if ctx.violations:
            return False, ctx.violations[0]["what"]
        return True, "lossless hierarchy stays unitary across an in-place edit"
    circ = gen.circuit_from_json(data["circuit"])
    if data["class"] == "unitary-sweep":
        from fractions import Fraction as F
        check_sweep(ctx, circ, data["mirrors"], [F(t) for t in data["ts"]], [F(g) for g in data["gs"]] if "gs" in data else None)
        if ctx.violations:
            return False, ctx.violations[0]["what"]
        return True, "unitary at every sweep point"
    _, cond, _, _ = gen.reference_solve(circ)
    check(ctx, circ, data["class"], cond)
    if ctx.violations:
        return False, ctx.violations[0]["what"]
    return True, f"{data['class']} preserved"
