"""C14 — InPulse export followed by import reproduces the model.
Random solved sweeps are exported to a temporary file, loaded back and evaluated at *every* exported parameter
point (first and last included) and at midpoints; mode mappings; assumption monitors for the text codecs."""
from __future__ import annotations

import io
import itertools

import numpy as np

import impl

RULE = ("random solved models: 1-4 base pins, with and without mode names (1-3 modes), non-symmetric complex matrices "
        "with exact zeros (whole entries and entries that vanish at single sweep points), one parameter with 2-6 points or two parameters on a 2x2..3x3 grid, awkward floats (decimal "
        "fractions, sums like 0.1+0.2, neighbours of powers of two, many digits), optional renaming of parameters on "
        "export and back on import, optional mode mapping (select / rename / map to no mode); every exported point is "
        "evaluated, plus midpoints for one-parameter sweeps; distinct = distinct (model, grid); non-trivial = non-symmetric matrix")
TRUSTED = ["pandas to_csv / read_csv, PyYAML dump / safe_load, scipy interp1d / LinearNDInterpolator (assumptions with monitors below)"]
ASSUMPTIONS = ["A-csv: parsing the printed decimal string returns the same double (monitored on the generated values with the parser options the code uses)",
               "A-yaml: the nested metadata dictionary round-trips, None keys included (monitored)",
               "A-interp: scipy interpolants reproduce their nodes; two-parameter interpolation is only checked at nodes"]
EXPLANATION = "amplitude = sqrt(abs2)*exp(i*phase) recovers z (Lean); column naming / index map is a bijection when names are distinct"


def awkward(rng, lo, hi):
    r = rng.random()
    if r < 0.25:
        return round(rng.uniform(lo, hi), 3)
    if r < 0.45:
        return rng.uniform(lo, hi)
    if r < 0.6:
        return float(np.nextafter(2.0 ** rng.randint(0, 1), rng.choice([0.0, 4.0]))) * (lo + hi) / 3
    if r < 0.8:
        return lo + (0.1 + 0.2) * rng.randint(1, 3) * (hi - lo) / 3
    return round(rng.uniform(lo, hi), 15)


def gen_case(rng):
    L = impl.lk()
    nb = rng.randint(1, 4)
    moded = rng.random() < 0.5
    modes = rng.sample(["TE", "TM", "HE"], rng.randint(1, 3)) if moded else [None]
    pins = [(f"p{k}", m) for k in range(nb) for m in modes]
    n = len(pins)
    two = rng.random() < 0.3
    if two:
        def spaced(vals, gap):
            out = []
            for v in sorted(vals):
                if not out or v - out[-1] > gap:
                    out.append(v)
            return out
        # scipy's LinearNDInterpolator (Qhull) needs a non-degenerate grid: keep the nodes well separated
        a = spaced({awkward(rng, 1.0, 2.0) for _ in range(rng.randint(2, 3))}, 1e-2)
        b = spaced({awkward(rng, 0.0, 1.0) for _ in range(rng.randint(2, 3))}, 1e-2)
        if len(a) < 2 or len(b) < 2:
            return None
        A, B = np.meshgrid(a, b, indexing="ij")
        params = {"wl": A.reshape(-1), "PS": B.reshape(-1)}
    else:
        a = sorted({awkward(rng, 1.0, 2.0) for _ in range(rng.randint(2, 6))})
        if rng.random() < 0.3:
            # a cluster of very closely spaced sweep points (relative spacing 1e-6 .. 1e-9)
            base = awkward(rng, 1.0, 2.0)
            step = base * 10.0 ** (-rng.randint(6, 9))
            a = sorted(set(a) | {base + j * step for j in range(rng.randint(2, 4))})
        if len(a) < 2:
            return None
        # a solved sweep need not be in increasing order: descending scans and arbitrary orders are sweeps too
        r_ord = rng.random()
        if r_ord < 0.2:
            a = a[::-1]
        elif r_ord < 0.4:
            rng.shuffle(a)
        params = {"wl": np.array(a)}
    ns = len(params["wl"])
    r = np.random.default_rng(rng.randrange(2 ** 32))
    S = r.normal(size=(ns, n, n)) + 1j * r.normal(size=(ns, n, n))
    S[:, r.random(size=(n, n)) < 0.2] = 0
    S[r.random(size=S.shape) < 0.1] = 0          # entries that vanish at some sweep points only (cos / sin going through zero)
    idx = list(range(n))
    rng.shuffle(idx)
    rename = rng.random() < 0.5
    mm = None
    if rng.random() < 0.4:
        if moded:
            keep = rng.sample(modes, rng.randint(1, len(modes)))
            if len(keep) == 1:
                mm = {keep[0]: rng.choice([keep[0], keep[0] + "x", "", "TE", "TM"])}
            else:
                # injective renaming whose targets may be other *source* names: swaps, cycles and chains included
                pool = ["TE", "TM", "HE", "X", "Y"]
                mm = dict(zip(keep, rng.sample(pool, len(keep))))
        else:
            mm = {"": rng.choice(["", "TE"])}
    return {"pins": pins, "idx": idx, "params": {k: [float(x) for x in v] for k, v in params.items()},
            "S": [[[[float(z.real), float(z.imag)] for z in row] for row in Sk] for Sk in S], "rename": rename, "mode_mapping": mm, "two": two}


def run_case(ctx, case, workdir):
    L = impl.lk()
    pins = [L.Pin(b, m) for b, m in case["pins"]]
    idx = case["idx"]
    params = {k: np.array(v) for k, v in case["params"].items()}
    S = np.array([[[complex(z[0], z[1]) for z in row] for row in Sk] for Sk in case["S"]])
    ns = S.shape[0]
    fn = str(workdir / "c14_export.csvy")
    mm = case["mode_mapping"]
    try:
        mod = L.SolvedModel(pin_dic={p: i for p, i in zip(pins, idx)}, param_dic={k: v.copy() for k, v in params.items()}, Smatrix=S.copy())
        if case["rename"]:
            mod.export_InPulse(filename=fn, parameter_name_mapping={"wl": "wavelength"}, units={"wavelength": "um", "PS": None})
        else:
            mod.export_InPulse(filename=fn, units={"wl": "um", "PS": None})
    except Exception as e:  # noqa
        ctx.violation(f"C14:export-raised-{type(e).__name__}", f"export_InPulse raised {type(e).__name__}: {str(e)[:70]}", case)
        return False
    try:
        kw = {}
        if case["rename"]:
            kw["parameter_name_mapping"] = {"wavelength": "wl"}
        if mm is not None:
            kw["mode_mapping"] = dict(mm)
        back = L.Model_from_InPulse(fn, **kw)
    except Exception as e:  # noqa
        sig = "C14:mode-map" if mm is not None else f"C14:import-raised-{type(e).__name__}"
        ctx.violation(sig, f"Model_from_InPulse raised {type(e).__name__}: {str(e)[:70]} (mode_mapping={mm})", case)
        return False
    # expected pins after the mode mapping
    def target(p):
        if mm is None:
            return p
        key = "" if p.mode_name is None else p.mode_name
        if key not in mm:
            return None
        return L.Pin(p.basename, None if mm[key] == "" else mm[key])
    exp = {p: target(p) for p in pins if target(p) is not None}
    if set(back.pin_dic) != set(exp.values()):
        ctx.violation("C14:mode-map" if mm is not None else "C14:pins", f"imported pins {sorted(map(str, back.pin_dic))} != expected {sorted(map(str, exp.values()))}", case)
        return False
    names = list(params)
    pts = list(range(ns))
    for k in pts:
        point = {nm: float(params[nm][k]) for nm in names}
        try:
            Sb = np.asarray(back.solve(**point).S)[0]
        except Exception as e:  # noqa
            edge = (k == 0 or k == ns - 1 or case["two"])
            ctx.violation("C14:csv-roundtrip" if isinstance(e, ValueError) else f"C14:eval-raised-{type(e).__name__}",
                          f"evaluating the imported model at exported point {k} of {ns} {point} raised {type(e).__name__}: {str(e)[:60]}", case)
            return False
        for p, pa in zip(pins, idx):
            for q, qa in zip(pins, idx):
                if p in exp and q in exp:
                    z = Sb[back.pin_dic[exp[p]], back.pin_dic[exp[q]]]
                    if not np.isfinite(z) or abs(z - S[k, pa, qa]) > 1e-9 * max(1.0, abs(S[k, pa, qa])):
                        tr = abs(z - S[k, qa, pa]) < 1e-9 and abs(S[k, pa, qa] - S[k, qa, pa]) > 1e-6
                        ctx.violation("C14:transposed" if tr else "C14:wrong-coefficient",
                                      f"imported coefficient ({p},{q}) at exported point {k}: {z:.6f}, exported {S[k, pa, qa]:.6f}" + (" (transposed)" if tr else ""), case)
                        return False
    if not case["two"]:
        xs = params["wl"]
        order = sorted(range(ns), key=lambda j: xs[j])          # neighbours in *value*, whatever the order of the sweep
        for k0, k1 in zip(order[:-1], order[1:]):
            mid = float((xs[k0] + xs[k1]) / 2)
            t = (mid - xs[k0]) / (xs[k1] - xs[k0])
            try:
                Sb = np.asarray(back.solve(wl=mid).S)[0]
            except Exception as e:  # noqa
                ctx.violation(f"C14:midpoint-raised-{type(e).__name__}", f"evaluating between exported points raised {type(e).__name__}", case)
                return False
            for p, pa in zip(pins, idx):
                for q, qa in zip(pins, idx):
                    if p in exp and q in exp:
                        z = Sb[back.pin_dic[exp[p]], back.pin_dic[exp[q]]]
                        lin = (1 - t) * S[k0, pa, qa] + t * S[k1, pa, qa]
                        if abs(z - lin) > 1e-9 * max(1.0, abs(lin)):
                            ctx.violation("C14:not-linear", f"between points {k0},{k1} the imported model is not the linear interpolation", case)
                            return False
    return True


def monitors(ctx, rng):
    """assumption monitors against the real libraries"""
    import pandas as pd
    import yaml
    vals = [awkward(rng, 1.0, 2.0) for _ in range(300)]
    text = pd.DataFrame({"x": vals}).to_csv(index=False)
    default = pd.read_csv(io.StringIO(text))["x"].values
    rt = pd.read_csv(io.StringIO(text), float_precision="round_trip")["x"].values
    ctx.extra["A-csv"] = {"values": len(vals), "default_parser_mismatches": int(np.sum(default != np.array(vals))),
                          "round_trip_parser_mismatches": int(np.sum(rt != np.array(vals)))}
    if int(np.sum(rt != np.array(vals))):
        ctx.notes.append("A-csv is false even with float_precision='round_trip' on this pandas")
    d = {"a": {None: {"TE": {None: "x//y"}}}, "port_modes": {"p": [None, "TE"]}}
    ctx.extra["A-yaml"] = {"roundtrip_ok": yaml.safe_load(yaml.dump(d)) == d}


def real_sweep_case(ctx, rng, workdir):
    """a sweep solved by a real Solver (unbalanced Mach-Zehnder of library blocks), exported and loaded back:
    wavelength only, or a full wavelength x phase grid"""
    L = impl.lk()
    two = rng.random() < 0.4
    L1, L2 = round(rng.uniform(5, 20), 3), round(rng.uniform(5, 20), 3)
    nwl = rng.randint(2, 6)
    wl = sorted({awkward(rng, 1.4, 1.6) for _ in range(nwl)})
    if len(wl) < 2 or min(np.diff(wl)) < 1e-3:
        return
    ps = sorted({round(rng.uniform(-1, 1), 3) for _ in range(rng.randint(2, 3))}) if two else None
    if two and (len(ps) < 2 or min(np.diff(ps)) < 1e-2):
        return
    rep = {"kind": "real-sweep", "L1": L1, "L2": L2, "wl": [float(x) for x in wl], "ps": ps}
    ctx.case(rep, tags=["stream:real-solver-sweep", "two-params" if two else "one-param"])
    real_sweep_run(ctx, rep, workdir)


def real_sweep_run(ctx, rep, workdir):
    L = impl.lk()
    L1, L2, wl, ps = rep["L1"], rep["L2"], rep["wl"], rep["ps"]
    two = ps is not None
    fn = str(workdir / "c14_real.csvy")
    try:
        sol = L.Solver()
        with sol:
            b1 = L.BeamSplitter(ratio=0.4).put()
            w1 = L.Waveguide(L1, 2.1).put("a0", b1.pin["b0"])
            w2 = L.Waveguide(L2, 2.1).put("a0", b1.pin["b1"])
            last = w1
            if two:
                last = L.PhaseShifter().put("a0", w1.pin["b0"])
            b2 = L.BeamSplitter(ratio=0.55).put("a0", last.pin["b0"])
            L.connect(w2.pin["b0"], b2.pin["a1"])
            L.raise_pins()
        if two:
            A, B = np.meshgrid(np.array(wl), np.array(ps), indexing="ij")
            kw = {"wl": A.reshape(-1), "PS": B.reshape(-1)}
        else:
            kw = {"wl": np.array(wl)}
        mod = sol.solve(**kw)
        mod.export_InPulse(filename=fn, units={"wl": "um", "PS": None})
        back = L.Model_from_InPulse(fn)
        S = np.array(mod.S)
        for k in range(S.shape[0]):
            pt = {nm: float(v[k]) for nm, v in kw.items()}
            Sb = np.asarray(back.solve(**pt).S)[0]
            for p in mod.pin_dic:
                for q in mod.pin_dic:
                    z, w0 = Sb[back.pin_dic[p], back.pin_dic[q]], S[k, mod.pin_dic[p], mod.pin_dic[q]]
                    if not np.isfinite(z) or abs(z - w0) > 1e-9:
                        ctx.violation("C14:real-sweep-coefficient", f"sweep solved by a Solver, exported point {k} {pt}: imported ({p},{q}) = {z:.6f}, exported {w0:.6f}", rep)
                        return
    except Exception as e:  # noqa
        ctx.violation(f"C14:real-sweep-raised-{type(e).__name__}", f"export / import / evaluation of a sweep solved by a Solver raised {type(e).__name__}: {str(e)[:80]}", rep)


def trace_monitor(ctx, rng, workdir):
    """translator of `Generated/InPulse.lean` vs the running code *and the real text layers*: the traced coefficients (YAML, CSV and
    interp1d replaced by what they are assumed to be), evaluated at random complex stacks, must equal what a real export to a file
    followed by a real Model_from_InPulse gives at both exported points and at the midpoint, without and with the mode mapping"""
    from translate import inpulse as ti
    from common import REPO
    L = impl.lk()
    try:
        traced = ti.trace(str(REPO))
    except Exception as e:  # noqa  (already a broken obligation of the Lean stage)
        ctx.notes.append(f"InPulse tracer: {type(e).__name__}: {str(e)[:200]}")
        return
    for i in range(ctx.budget(6, 40)):
        r = np.random.default_rng(rng.randrange(2 ** 32))
        S = r.normal(size=(ti.K, 3, 3)) + 1j * r.normal(size=(ti.K, 3, 3))
        env = {f"(S {k} {a} {b})": complex(S[k, a, b]) for k in range(ti.K) for a in range(3) for b in range(3)}
        rep = {"kind": "trace", "S": [[[[float(z.real), float(z.imag)] for z in row] for row in Sk] for Sk in S]}
        ctx.case(rep, tags=["traced-inpulse"])
        try:
            sm = L.SolvedModel(pin_dic={L.Pin(b, m): i_ for b, m, i_ in ti.PINS}, param_dic={"wl": np.array(ti.WL)}, Smatrix=S.copy())
            path = str(workdir / f"trace_{i}.txt")
            sm.export_InPulse(path, units={"wl": "um"})
            for label, mm in (("plain", None), ("mapped", dict(ti.MODE_MAP))):
                back = L.Model_from_InPulse(path, mode_mapping=mm)
                res, _pins = traced[label]
                for tag, wl in (("n0", ti.WL[0]), ("n1", ti.WL[1]), ("mid", 0.5 * (ti.WL[0] + ti.WL[1]))):
                    X = np.asarray(back.solve(wl=wl).S)[0]
                    for (a, b), e in res[tag].items():
                        ba, ma, _ = ti.PINS[a]
                        bb, mb, _ = ti.PINS[b]
                        pa = L.Pin(ba, ma) if mm is None else L.Pin(ba, None if mm[ma] == "" else mm[ma])
                        pb = L.Pin(bb, mb) if mm is None else L.Pin(bb, None if mm[mb] == "" else mm[mb])
                        got = X[back.pin_dic[pa], back.pin_dic[pb]]
                        want = complex(e.eval(env))
                        if abs(got - want) > 1e-9:
                            ctx.disagreement("C14.translator.inpulse", f"{label} {tag} ({a},{b}): traced {want:.6f}, real file round trip {got:.6f}", rep)
                            return
        except Exception as e:  # noqa
            ctx.disagreement("C14.translator.inpulse", f"{type(e).__name__}: {str(e)[:100]}", rep)
            return


def run(ctx):
    trace_monitor(ctx, ctx.subrng("c14-trace"), ctx.workdir)
    rng = ctx.subrng("c14")
    rrng = ctx.subrng("c14-real")
    for _ in range(ctx.budget(25, 300)):
        real_sweep_case(ctx, rrng, ctx.workdir)
    n = ctx.budget(120, 2000)
    monitors(ctx, rng)
    for i in range(n):
        if ctx.time_left() < 0:
            break
        case = gen_case(rng)
        if case is None:
            continue
        ctx.case(case, tags=["two-params" if case["two"] else "one-param", "mode-map" if case["mode_mapping"] is not None else "no-mode-map",
                             "renamed" if case["rename"] else "plain", "moded" if case["pins"][0][1] is not None else "unmoded"],
                 sample={k: case[k] for k in ("pins", "params", "mode_mapping", "rename")} if i < 2 else None)
        run_case(ctx, case, ctx.workdir)


def replay(ctx, data):
    if isinstance(data, dict) and data.get("kind") == "trace":
        return True, "regenerated stream (translator validation); not replayed"
    if isinstance(data, dict) and data.get("kind") == "real-sweep":
        real_sweep_run(ctx, data, ctx.workdir)
        if ctx.violations:
            return False, ctx.violations[0]["what"]
        return True, "sweep solved by a Solver survives export and import"
    run_case(ctx, data, ctx.workdir)
    if ctx.violations:
        return False, ctx.violations[0]["what"]
    return True, "export followed by import reproduces the model at every exported point"
