"""C06 — solve() is a pure query and its results are immutable snapshots.
Random histories of solve calls (scalar / sweep / parameter subsets, on a parent and on its shared sub-solver, monitors
declared between solves, failing calls in between); every earlier result is re-read after every step; every result
is compared with the same call on a freshly built copy of the circuit; the circuit is snapshotted before/after."""
from __future__ import annotations

import copy
from fractions import Fraction

import numpy as np

import circuits as cs
import gen
import impl
import props.c04 as c04

RULE = ("random circuits of 2-5 affine probe blocks placed as a sub-solver inside a parent with one more block; histories of "
        "3-8 (thorough 14) steps over {solve child, solve parent (scalar / sweep / subset of parameters / none), declare a "
        "monitor, failing solve (inconsistent sweep lengths)}; after every step all earlier results are re-read (matrix, "
        "solved_params, monitor tables) and the circuit is compared with its snapshot; every result is compared with the "
        "same call on a fresh build; distinct = distinct (circuit, history); non-trivial = at least two solves with "
        "different arguments")
TRUSTED = ["deep snapshot covers structures, connections, pin_mapping, default_params, monitor_st and each structure's pin_list/conn_dict",
           "fresh build from the same description as reference for purity"]
ASSUMPTIONS = ["Python object identity/aliasing is observed only through results and snapshots"]
EXPLANATION = "state-transformer view: result independent of scratch state; results are values"


def build(pcirc, extra, mons):
    """child solver from pcirc; parent = child placed once + `extra` block linked to the child's first exposed pin"""
    L = impl.lk()
    child, sts = impl.build_param_solver(pcirc, name="child")
    for c in mons:
        child.monitor_structure(sts[c], name=f"M{c}")
    parent = L.Solver(name="parent")
    AM = impl._CLASSES.get("am") or impl.affine_model_class()
    impl._CLASSES["am"] = AM
    cst = L.Structure(solver=child)
    parent.add_structure(cst)
    n = len(extra["pins"])
    est = L.Structure(model=AM(extra["pins"], extra["idx"], gen.mat_np(extra["S0"], n, n), gen.mat_np(extra["S1"], n, n),
                               pname=extra["param"], default=float(extra["default"])))
    parent.add_structure(est)
    names = cs.exposed_names(pcirc)
    if names:
        parent.connect(cst, names[0], est, extra["pins"][0])
    for nm in names[1:]:
        parent.map_pins({L.Pin("P_" + nm): (cst, L.Pin(nm))})
    for p in extra["pins"][1:]:
        parent.map_pins({L.Pin("P_" + p): (est, L.Pin(p))})
    if extra.get("defs"):
        # the parent defines `pa` through a new argument `vq` (definition default 0.25); `pa` of the child and of the extra block follow
        parent.add_param("pa", (lambda vq=0.25: 0.5 * vq + 0.125), {"vq": 0.25})
    return child, parent, sts


def ptree(pcirc, extra, which):
    """the circuit of `build` as the request of the driver ops phsolve / phsweep (child alone, or the parent holding it)"""
    def leaf(c):
        k = len(c["pins"])
        return {"leaf": {"pins": list(c["pins"]), "idx": list(c["idx"]), "S0": gen.mat_json(c["S0"]), "S1": gen.mat_json(c["S1"]),
                         "param": c["param"], "dflt": [gen.frac_str(Fraction(c["default"])), "0/1"]}}
    child = {"children": [[[], leaf(c)] for c in pcirc["comps"]],
             "links": [{"a": a, "p": p_, "b": b, "q": q_} for (a, p_, b, q_) in pcirc["links"]],
             "exposed": [{"name": nm, "c": c, "p": p_} for (nm, c, p_) in pcirc["exposed"]]}
    if which == "child":
        return child
    names = cs.exposed_names(pcirc)
    return {"children": [[[], child], [[], leaf(extra)]],
            "links": [{"a": 0, "p": names[0], "b": 1, "q": extra["pins"][0]}] if names else [],
            "exposed": [{"name": "P_" + nm, "c": 0, "p": nm} for nm in names[1:]] + [{"name": "P_" + p_, "c": 1, "p": p_} for p_ in extra["pins"][1:]]}


def model_tie(ctx, pcirc, extra, which, kw, names, S, rep):
    """the answer of a solve in the middle of a history against the end-to-end model, a function of (circuit, call) alone"""
    if extra.get("defs") or len(pcirc["comps"]) > 5:
        return
    req = {"op": "phsweep", "tree": ptree(pcirc, extra, which),
           "kw": [[k, [[gen.frac_str(Fraction(float(x)).limit_denominator(1 << 20)), "0/1"] for x in np.atleast_1d(v)]] for k, v in kw.items()]}
    ans = ctx.driver.ask(req)
    if "points" not in ans or len(ans["points"]) != S.shape[0]:
        ctx.disagreement("C06.model.pure-function", f"model: {str(ans)[:80]}", rep)
        return
    n = len(names)
    for k, pt in enumerate(ans["points"]):
        if "T" not in pt or sorted(pt["pins"]) != sorted(names):
            continue
        o = [pt["pins"].index(x) for x in names]
        T = gen.json_mat_np([z for row in pt["T"] for z in row], n, n) if n else np.zeros((0, 0), complex)
        T = T[np.ix_(o, o)] if n else T
        ctx.tag("model:pure-function")
        if T.size and float(np.max(np.abs(T - S[k]))) > 1e-9:
            ctx.disagreement("C06.model.pure-function", f"{which}.solve({sorted(kw)}) in the middle of a history differs from the model's function of the "
                             f"circuit and the call at sweep point {k}", rep)
            return


def circuit_snapshot(sol):
    ids = {id(s): k for k, s in enumerate(sol.structures)}
    key = lambda t: (ids.get(id(t[0]), "?"), t[1].name)
    return {"structures": len(sol.structures),
            "connections": sorted((key(a), key(b)) for a, b in sol.connections.items()),
            "pin_mapping": sorted((n.name, key(t)) for n, t in sol.pin_mapping.items()),
            "default_params": sorted((k, repr(v)) for k, v in sol.default_params.items()),
            "param_definitions": sorted((k, sorted((a, repr(v)) for a, v in args.items())) for k, (f, args) in sol.param_mapping.items()),
            "monitors": sorted(ids.get(id(s), "?") for s in sol.monitor_st),
            "st": [(sorted(p.name for _, p in st.pin_list), sorted((key(a), key(b)) for a, b in st.conn_dict.items())) for st in sol.structures]}


def grab(mod, names, exc):
    """a value copy of everything a result exposes"""
    out = {"S": np.array(impl.solved_matrix(mod, names)), "params": copy.deepcopy(mod.solved_params), "ns": mod.ns}
    if mod.int_func is not None:
        try:
            out["mon"] = mod.get_monitor(dict(exc), power=False).to_dict("list")
        except Exception as e:  # noqa
            out["mon"] = "raised:" + type(e).__name__
    return out


def same(a, b, tol=1e-9):
    if a["S"].shape != b["S"].shape or (a["S"].size and np.max(np.abs(a["S"] - b["S"])) > tol):
        return False, "matrix"
    if a["ns"] != b["ns"]:
        return False, "ns"
    if ("mon" in a) != ("mon" in b):
        return False, "monitor presence"
    if "mon" in a:
        if isinstance(a["mon"], str) or isinstance(b["mon"], str):
            if a["mon"] != b["mon"]:
                return False, f"monitor read-out ({a['mon'] if isinstance(a['mon'], str) else 'table'} vs {b['mon'] if isinstance(b['mon'], str) else 'table'})"
        else:
            if set(a["mon"]) != set(b["mon"]):
                return False, f"monitor columns {sorted(set(a['mon']) ^ set(b['mon']))}"
            for k in a["mon"]:
                x, y = np.array(a["mon"][k], complex), np.array(b["mon"][k], complex)
                if x.shape != y.shape or (x.size and np.max(np.abs(x - y)) > tol):
                    return False, f"monitor column {k}"
    return True, ""


def run_history(ctx, pcirc, extra, steps, replay):
    child, parent, sts = build(pcirc, extra, [])
    mons = []
    cnames = cs.exposed_names(pcirc)
    pnames = ["P_" + nm for nm in cnames[1:]] + ["P_" + p for p in extra["pins"][1:]]
    exc_c = {nm: complex(0.5 + 0.1 * k, -0.2 * k) for k, nm in enumerate(cnames)}
    exc_p = {nm: complex(0.3 - 0.1 * k, 0.4) for k, nm in enumerate(pnames)}
    kept = []                       # (label, model, names, exc, value copy at return time)
    snap_c, snap_p = circuit_snapshot(child), circuit_snapshot(parent)

    def pristine():
        """what an identically built circuit answers when asked for its defaults: must not depend on any solve made before"""
        out = {}
        for which in ("child", "parent"):
            try:
                fc, fp, _ = build(pcirc, extra, [])
                tgt, nms, ex = (fc, cnames, exc_c) if which == "child" else (fp, pnames, exc_p)
                out[which] = (grab(tgt.solve(), nms, ex), sorted((k, repr(v)) for k, v in tgt.default_params.items()))
            except Exception as e:  # noqa
                out[which] = "raised:" + impl.outcome_class(e)
        return out
    first_build = pristine()
    done = []
    for step in steps:
        kind = step[0]
        done.append(step)
        rep = dict(replay)
        rep["executed"] = [list(map(str, s)) for s in done]
        if kind == "monitor":
            c = step[1] % len(sts)
            if c in mons or len(mons) + 1 >= len(sts):
                continue
            mons.append(c)
            child.monitor_structure(sts[c], name=f"M{c}")
            snap_c = circuit_snapshot(child)
            continue
        target, names, exc = (child, cnames, exc_c) if step[1] == "child" else (parent, pnames, exc_p)
        kw = step[2]
        if kind == "fail":
            try:
                # (names no definition touches: a parameter redefined through add_param ignores an explicit value of its old name)
                target.solve(pb=np.array([0.1, 0.2, 0.3]), verif_other=np.array([0.1, 0.2]))
                ctx.violation("C06:fail-accepted", "inconsistent sweep lengths accepted", rep)
                return False
            except Exception:
                pass
        else:
            try:
                mod = target.solve(**copy.deepcopy(kw))
            except Exception as e:  # noqa
                if impl.outcome_class(e) == "singular":
                    continue
                sig = "C06:poisoned-after-error" if any(s[0] == "fail" for s in done[:-1]) else f"C06:solve-raised-{type(e).__name__}"
                ctx.violation(sig, f"a valid solve raised {type(e).__name__}: {str(e)[:70]} (history {[s[0] for s in done]})", rep)
                return False
            val = grab(mod, names, exc)
            if len(done) <= 4:
                model_tie(ctx, pcirc, extra, step[1], kw, names, val["S"], rep)
            # purity: the same call on a freshly built copy of the circuit
            try:
                fc, fp, _ = build(pcirc, extra, mons)
                ftarget = fc if step[1] == "child" else fp
                fval = grab(ftarget.solve(**copy.deepcopy(kw)), names, exc)
            except Exception as e:  # noqa
                if impl.outcome_class(e) == "singular":
                    continue
                ctx.violation(f"C06:fresh-raised-{type(e).__name__}", "the same call on a fresh build raised", rep)
                return False
            ok, why = same(val, fval)
            if not ok:
                sig = "C06:stale-partition" if "monitor col" in why else "C06:history-dependent"
                ctx.violation(sig, f"result of {step[1]}.solve({sorted(kw)}) differs from the same call on a fresh build in: {why} (history {[s[0] for s in done]})", rep)
                return False
            # repeating the call repeats the answer
            try:
                val2 = grab(target.solve(**copy.deepcopy(kw)), names, exc)
                ok, why = same(val, val2)
                if not ok:
                    ctx.violation("C06:not-repeatable", f"repeating {step[1]}.solve({sorted(kw)}) changes the answer in: {why}", rep)
                    return False
            except Exception as e:  # noqa
                ctx.violation(f"C06:repeat-raised-{type(e).__name__}", "repeating a solve raised", rep)
                return False
            kept.append((step, mod, names, exc, val))
        # the circuit is unchanged
        for sol, snap, nm in ((child, snap_c, "child"), (parent, snap_p, "parent")):
            now = circuit_snapshot(sol)
            if now != snap:
                diff = [k for k in snap if snap[k] != now[k]]
                ctx.violation("C06:circuit-changed", f"solve changed the {nm} solver's {diff}", rep)
                return False
        # every earlier result still reads the same
        for (st0, mod0, names0, exc0, val0) in kept:
            now = grab(mod0, names0, exc0)
            ok, why = same(val0, now)
            if not ok:
                sig = "C06:live-monitor-closure" if "monitor" in why else "C06:result-mutated"
                ctx.violation(sig, f"an earlier result ({st0[1]}.solve({sorted(st0[2])})) changed after a later step in: {why}", rep)
                return False
            if repr(sorted(mod0.solved_params.items(), key=lambda t: t[0])) != repr(sorted(val0["params"].items(), key=lambda t: t[0])):
                ctx.violation("C06:result-mutated", "solved_params of an earlier result changed", rep)
                return False
    # the process is as it was: the same construction code gives the same circuit and the same answer as before the history
    last_build = pristine()
    for which in ("child", "parent"):
        a, b = first_build[which], last_build[which]
        if isinstance(a, str) or isinstance(b, str):
            if a != b:
                ctx.violation("C06:leaves-trace", f"building and solving the same {which} circuit {a if isinstance(a, str) else 'worked'} before the history and "
                              f"{b if isinstance(b, str) else 'worked'} after it", dict(replay, executed=[list(map(str, s)) for s in done]))
                return False
            continue
        ok, why = same(a[0], b[0])
        if not ok or a[1] != b[1]:
            ctx.violation("C06:leaves-trace", f"an identically built {which} circuit solved at its defaults differs after the history in: "
                          f"{why if not ok else 'default_params'} (solves leave a trace outside the solver)", dict(replay, executed=[list(map(str, s)) for s in done]))
            return False
    return True


def block_results_stream(ctx, rng):
    """every library block: solve, keep the result, solve the same object again at other values; the kept result
    (and one obtained through a single-structure solver) must not change and must not share memory with the model"""
    L = impl.lk()
    for name, (factory, params) in c04.block_factories().items():
        if name == "FPRGaussian" or not params:
            continue
        for wrap in (False, True):
            ctx.case(("block-result", name, wrap), tags=["stream:block-results", f"block:{name}"])
            rep = {"kind": "block-result", "block": name, "wrapped": wrap}
            try:
                m = factory()
                if wrap:
                    target = L.Solver(name="single")
                    with target:
                        m.put()
                        L.raise_pins()
                else:
                    target = m
                p1 = {k: lo + 0.3 * (hi - lo) for k, (lo, hi) in params.items()}
                p2 = {k: lo + 0.8 * (hi - lo) for k, (lo, hi) in params.items()}
                r1 = target.solve(**p1)
                keep = np.array(r1.S, copy=True)
                keep_params = copy.deepcopy(r1.solved_params)
                r2 = target.solve(**p2)
                fresh = factory().solve(**p1)
                if np.array(r1.S).shape != keep.shape or np.max(np.abs(np.array(r1.S) - keep)) > 0:
                    ctx.violation("C06:result-mutated", f"{name} ({'single-structure solver' if wrap else 'bare model'}): the matrix of an earlier result changed when the same object was solved again", rep)
                    continue
                if repr(r1.solved_params) != repr(keep_params):
                    ctx.violation("C06:result-mutated", f"{name}: solved_params of an earlier result changed", rep)
                    continue
                # write-and-restore aliasing probe between the model's buffer and the results
                for obj in (m,):
                    buf = getattr(obj, "S", None)
                    if isinstance(buf, np.ndarray) and (np.shares_memory(buf, r1.S) or np.shares_memory(buf, r2.S)):
                        ctx.violation("C06:result-aliases-model", f"{name}: a returned result shares memory with the model's own buffer", rep)
                        break
            except Exception as e:  # noqa
                ctx.violation(f"C06:block-result-raised-{type(e).__name__}", f"{name}: {type(e).__name__}: {str(e)[:60]}", rep)


def leftover_params_stream(ctx, rng):
    """bare blocks: a solve that omits a parameter must not pick up the value an earlier solve was given; a solve that
    fails must not corrupt the object for later solves (also for mode-expanded blocks)"""
    L = impl.lk()
    for name, (factory, params) in c04.block_factories().items():
        if name == "FPRGaussian" or not params:
            continue
        for expanded in (False, True):
            ctx.case(("leftover", name, expanded), tags=["stream:leftover-params"])
            rep = {"kind": "leftover", "block": name, "expanded": expanded}

            def make():
                m = factory()
                if expanded:
                    if any(p.mode_name is not None for p in m.pin_dic):
                        return None
                    m = m.expand_mode(["TE", "TM"])
                return m
            m = make()
            if m is None:
                continue
            p1 = {k: lo + 0.3 * (hi - lo) for k, (lo, hi) in params.items()}
            first = list(params)[0]
            p2 = {k: v for k, v in p1.items() if k != first}          # omit one parameter

            def attempt(obj, kw):
                try:
                    return "ok", np.array(obj.solve(**kw).S)
                except Exception as e:  # noqa
                    return type(e).__name__, None
            fresh = attempt(make(), p2)
            try:
                m.solve(**{k: lo + 0.8 * (hi - lo) for k, (lo, hi) in params.items()})
            except Exception as e:  # noqa
                ctx.violation(f"C06:leftover-raised-{type(e).__name__}", f"{name}: {str(e)[:60]}", rep)
                continue
            used = attempt(m, p2)
            if used[0] != fresh[0] or (used[0] == "ok" and (used[1].shape != fresh[1].shape or np.max(np.abs(used[1] - fresh[1])) > 1e-12)):
                ctx.violation("C06:leftover-parameter", f"{name}{' (mode-expanded)' if expanded else ''}: solve({sorted(p2)}) after an earlier solve gives "
                              f"{used[0]}, on a fresh object {fresh[0]}: the omitted parameter {first} kept the earlier call's value", rep)
                continue
            # a failing call (missing required parameter / bad value) followed by a valid one
            bad = attempt(m, {first: "not-a-number"})
            after = attempt(m, p1)
            ref = attempt(make(), p1)
            if after[0] != ref[0] or (after[0] == "ok" and (after[1].shape != ref[1].shape or np.max(np.abs(after[1] - ref[1])) > 1e-12)):
                ctx.violation("C06:poisoned-model", f"{name}{' (mode-expanded)' if expanded else ''}: after a failing solve ({bad[0]}) a valid solve gives {after[0]}"
                              f"{'' if after[0] != 'ok' else ' with a different matrix'}; a fresh object gives {ref[0]}", rep)


def fine_scan_stream(ctx, rng):
    """a nested circuit that is very sensitive to wl (long waveguide) solved at parameter values that differ only in the
    9th digit, and with long sweeps that agree at both ends: each solve must equal the same call on a fresh build"""
    L = impl.lk()

    def build():
        child = L.Solver(name="cell")
        with child:
            ps = L.PhaseShifter().put()
            L.Waveguide(L=1.0e6, n=1.5).put("a0", ps.pin["b0"])
            L.raise_pins()
        top = L.Solver(name="top")
        with top:
            c = child.put()
            L.Waveguide(L=10.0, n=1.5).put("a0", (c, L.Pin("b0")))
            L.raise_pins()
        return top
    top = build()
    calls = [{"wl": 1.55}, {"wl": 1.55 + 2e-9}, {"wl": 1.55 + 4e-9, "PS": 0.25}, {"wl": 1.55 + 4e-9, "PS": 0.25 + 1e-9}]
    n = 1200
    base = np.full(n, 0.1)
    a = base.copy(); a[400:500] = 0.7
    b = base.copy(); b[600:700] = 0.3
    calls += [{"wl": 1.55, "PS": a}, {"wl": 1.55, "PS": b}]
    for k, kw in enumerate(calls):
        ctx.case(("fine-scan", k), tags=["stream:fine-scan"])
        rep = {"kind": "fine-scan", "call": k}
        try:
            got = np.array(top.solve(**kw).S)
            ref = np.array(build().solve(**kw).S)
        except Exception as e:  # noqa
            ctx.violation(f"C06:fine-scan-raised-{type(e).__name__}", str(e)[:80], rep)
            return
        if got.shape != ref.shape or np.max(np.abs(got - ref)) > 1e-9:
            ctx.violation("C06:history-dependent", f"nested solve #{k} ({'sweep of 1200 points' if k >= 4 else kw}) differs from the same call on a fresh build by "
                          f"{np.max(np.abs(got - ref)) if got.shape == ref.shape else 'shape'}: an earlier solve with nearly equal arguments left a trace", rep)
            return


def undeclared_params_stream(ctx, rng, only=None):
    """library blocks inside a solver (one and two levels), solved again and again with calls that change one parameter at a
    time - among them parameters the block *reads without declaring* (wl of FPR / CWA, the extra keywords of a user index
    function): every call must equal the same call on a fresh build (a matrix kept from the previous solve is a trace)"""
    L = impl.lk()
    facs = dict(c04.block_factories())

    def uw_index(wl, T=0.0, **kw):
        return 1.5 + 0.01 * wl + 0.001 * T
    facs["UserWaveguide-undeclared"] = (lambda: L.UserWaveguide(L=7.0, func=uw_index), {"wl": (1.5, 1.6), "T": (0.0, 50.0)})
    for name, (factory, params) in facs.items():
        if name == "FPRGaussian" or (only is not None and name != only):
            continue
        required = c04.REQUIRED.get(name, []) + (["wl"] if name == "UserWaveguide-undeclared" else [])
        for depth in (1, 2):
            def build():
                sol = L.Solver(name="w1")
                with sol:
                    factory().put()
                    L.raise_pins()
                if depth == 2:
                    top = L.Solver(name="w2")
                    with top:
                        sol.put()
                        L.raise_pins()
                    return top
                return sol
            try:
                used = build()
            except Exception as e:  # noqa
                ctx.tag(f"skipped:build-{type(e).__name__}")
                continue
            names = list(params)
            cur = {k: lo + rng.random() * (hi - lo) for k, (lo, hi) in params.items()}
            calls = []
            for step in range(6):
                k = rng.choice(names)                                   # change exactly one parameter per call
                lo, hi = params[k]
                cur = dict(cur)
                cur[k] = lo + rng.random() * (hi - lo)
                kw = {n: v for n, v in cur.items() if n in required or n == k or rng.random() < 0.8}
                if step >= 4:                                           # equal-length sweeps that differ in one column
                    kw = {n: np.array([v, v + 0.01 * (params[n][1] - params[n][0]), v]) if n == k else v for n, v in kw.items()}
                calls.append(kw)
            for j, kw in enumerate(calls):
                rep = {"kind": "undeclared", "block": name, "depth": depth,
                       "calls": [{n: (np.asarray(v).tolist()) for n, v in c.items()} for c in calls[:j + 1]]}
                ctx.case(("undeclared", name, depth, j, repr(sorted(rep["calls"][-1].items()))), tags=["stream:undeclared-params"])

                def attempt(obj):
                    try:
                        return "ok", np.array(obj.solve(**kw).S)
                    except Exception as e:  # noqa
                        return type(e).__name__, None
                got, ref = attempt(used), attempt(build())
                if got[0] != ref[0] or (got[0] == "ok" and (got[1].shape != ref[1].shape or np.max(np.abs(got[1] - ref[1])) > 1e-9)):
                    ctx.violation("C06:history-dependent", f"{name} in a solver ({depth} level{'s' if depth > 1 else ''}): call #{j} solve({sorted(kw)}) gives "
                                  f"{got[0]}{'' if got[0] != 'ok' or ref[0] != 'ok' else ' with a different matrix'}, a fresh build gives {ref[0]} "
                                  f"(earlier calls changed one parameter at a time)", rep)
                    break


def gen_kw(rng):
    r = rng.random()
    if r < 0.2:
        return {}
    kw = {}
    ns = rng.choice([1, 1, 3])
    for nm in ("pa", "pb"):
        if rng.random() < 0.7:
            val = lambda: 0.0 if rng.random() < 0.25 else rng.randint(-6, 6) / 8       # 0 makes symmetric-S0 parts exactly reciprocal
            kw[nm] = (np.array([val() for _ in range(ns)]) if ns > 1 and rng.random() < 0.8 else val())
    if rng.random() < 0.4:
        kw["vq"] = (np.array([rng.randint(-6, 6) / 8 for _ in range(ns)]) if ns > 1 and rng.random() < 0.6 else rng.randint(-6, 6) / 8)
    return kw


def gen_steps(rng, n):
    steps = []
    for _ in range(n):
        r = rng.random()
        if r < 0.15:
            steps.append(("monitor", rng.randrange(8)))
        elif r < 0.27:
            steps.append(("fail", rng.choice(["child", "parent"]), {}))
        else:
            steps.append(("solve", rng.choice(["child", "child", "parent"]), gen_kw(rng)))
    return steps


def kw_json(kw):
    return {k: (list(map(float, v)) if np.ndim(v) else float(v)) for k, v in kw.items()}


def run(ctx):
    rng = ctx.subrng("c06")
    block_results_stream(ctx, rng)
    fine_scan_stream(ctx, rng)
    leftover_params_stream(ctx, rng)
    undeclared_params_stream(ctx, ctx.subrng("c06-undeclared"))
    n = ctx.budget(250, 1500)
    maxs = 8 if ctx.tier == "quick" else 14
    for i in range(n):
        if ctx.time_left() < 0:
            break
        pcirc, _ = c04.random_pcirc(rng, 5)
        if len(pcirc["comps"]) < 2:
            continue
        for comp in pcirc["comps"]:
            comp["param"] = rng.choice(["pa", "pb"])
        dflt = {"pa": Fraction(rng.randint(-4, 4), 8), "pb": Fraction(rng.randint(-4, 4), 8)}
        for comp in pcirc["comps"]:
            comp["default"] = dflt[comp["param"]]
        k = rng.randint(2, 3)
        extra = {"pins": [f"xq{j}" for j in range(k)], "idx": list(range(k)), "S0": gen.contractive(rng, k, target=0.4),
                 "S1": gen.contractive(rng, k, target=0.3), "param": "pa", "default": dflt["pa"], "defs": rng.random() < 0.4}
        steps = gen_steps(rng, rng.randint(3, maxs))
        replay = {"pcirc": c04.pcirc_json(pcirc), "extra": {"pins": extra["pins"], "idx": extra["idx"], "S0": gen.mat_json(extra["S0"]),
                                                              "S1": gen.mat_json(extra["S1"]), "param": "pa", "default": gen.frac_str(extra["default"]), "defs": extra["defs"]},
                  "steps": [[s[0], s[1], kw_json(s[2])] if s[0] != "monitor" else list(s) for s in steps]}
        nsolve = len({repr(kw_json(s[2])) + s[1] for s in steps if s[0] == "solve"})
        ctx.case(replay, nontrivial=nsolve >= 2, tags=[f"steps:{len(steps)}"] + sorted({f"has:{s[0]}" for s in steps}),
                 sample=replay["steps"] if i < 2 else None)
        before = len(ctx.violations)
        run_history(ctx, pcirc, extra, steps, replay)
        if len(ctx.violations) > before:
            # shrink the history
            sig = ctx.violations[-1]["signature"]
            cur = list(steps)
            j = len(cur) - 1
            while j >= 0:
                cand = cur[:j] + cur[j + 1:]
                sub = type(ctx)(ctx.pid, ctx.tier, ctx.seed)
                try:
                    run_history(sub, pcirc, extra, cand, {})
                except Exception:
                    pass
                if any(v["signature"] == sig for v in sub.violations):
                    cur = cand
                j -= 1
            rp = dict(replay)
            rp["steps"] = [[s[0], s[1], kw_json(s[2])] if s[0] != "monitor" else list(s) for s in cur]
            ctx.violations[-1]["replay"] = rp


def replay(ctx, data):
    from common import parse_cfrac
    if data.get("kind") == "leftover":
        leftover_params_stream(ctx, ctx.subrng("c06"))
        if ctx.violations:
            return False, ctx.violations[0]["what"]
        return True, "bare blocks keep no trace of earlier or failed solves"
    if data.get("kind") == "undeclared":
        undeclared_params_stream(ctx, ctx.subrng("c06-undeclared"))
        if ctx.violations:
            return False, ctx.violations[0]["what"]
        return True, "library blocks inside solvers keep no matrix from an earlier solve"
    if data.get("kind") == "fine-scan":
        fine_scan_stream(ctx, ctx.subrng("c06"))
        if ctx.violations:
            return False, ctx.violations[0]["what"]
        return True, "nested solves with nearly equal arguments are independent"
    if data.get("kind") == "block-result":
        block_results_stream(ctx, ctx.subrng("c06"))
        if ctx.violations:
            return False, ctx.violations[0]["what"]
        return True, "results of library blocks are snapshots"
    pcirc = c04.pcirc_from_json(data["pcirc"])
    e = data["extra"]
    k = len(e["pins"])
    un = lambda flat: [[parse_cfrac(z) for z in flat[i * k:(i + 1) * k]] for i in range(k)]
    extra = {"pins": e["pins"], "idx": e["idx"], "S0": un(e["S0"]), "S1": un(e["S1"]), "param": e["param"], "default": Fraction(e["default"]), "defs": bool(e.get("defs"))}
    steps = []
    for s in data["steps"]:
        if s[0] == "monitor":
            steps.append(("monitor", s[1]))
        else:
            steps.append((s[0], s[1], {k2: (np.array(v) if isinstance(v, list) else v) for k2, v in s[2].items()}))
    run_history(ctx, pcirc, extra, steps, data)
    if ctx.violations:
        return False, ctx.violations[0]["what"]
    return True, "solves are pure and results are snapshots"
