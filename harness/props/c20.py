"""C20 — accuracy and success do not degrade with circuit size or depth (measured part).
Large cascades, coupler meshes, lossy resonant chains and deep nests on the real code vs closed forms / an
independent numpy reference.  These are tests at scale (labelled as such); the exact, size-generic statements
are the Lean theorems."""
from __future__ import annotations

from fractions import Fraction

import numpy as np

import gen
import impl

RULE = ("fixed families at scale: reflection-free cascade of N two-ports with exact unit-modulus rational phases "
        "(closed form: product), the same cascade declared out of order (head of the line placed last; everything shuffled), cascade of N reflection-free attenuators with 300-600 dB of total loss (closed form, error relative to the tiny transmission), cascade of N weakly reflecting lossy two-ports (reference: dense numpy network solve), "
        "n x n mesh of beam splitters and phase shifters (unitarity + dense reference), lossy resonant chain of "
        "mirror-waveguide cells, d-level nest of a two-port, the lossy cascade cut into three large sub-solvers (placed as structures and placed with put()), a chain of phase shifters each with its own parameter name, meshes of directly connected couplers (10 and 13 modes; thorough up to 24); sizes quick 500 / 300 / 10x10 / 100 / 40 / 600 / 150, thorough "
        "2000 / 1000 / 20x20 / 400 / 60 / 3000 / 1000; distinct = family x size; all non-trivial")
TRUSTED = ["numpy dense solve of the global network system as reference at scale", "IEEE-754 accumulation behaviour is measured, not proved"]
ASSUMPTIONS = ["relative accuracy target 1e-9"]
EXPLANATION = "exact size-generic closed form / boundedness / definedness as Lean theorems; floating-point accuracy at scale is measured"

PHASES = [(Fraction(3, 5), Fraction(4, 5)), (Fraction(5, 13), Fraction(12, 13)), (Fraction(-7, 25), Fraction(24, 25)),
          (Fraction(8, 17), Fraction(-15, 17)), (Fraction(0), Fraction(1)), (Fraction(-20, 29), Fraction(21, 29))]


def dense_reference(comps, links, exposed):
    """numpy global solve with sparse-ish assembly; comps: list of (pins, S ndarray)"""
    off, pos = 0, {}
    for c, (pins, S) in enumerate(comps):
        for i, p in enumerate(pins):
            pos[(c, p)] = off + i
        off += len(pins)
    n = off
    Sg = np.zeros((n, n), complex)
    for c, (pins, S) in enumerate(comps):
        o = pos[(c, pins[0])]
        Sg[o:o + len(pins), o:o + len(pins)] = S
    P = np.zeros((n, n))
    for (a, p, b, q) in links:
        P[pos[(a, p)], pos[(b, q)]] = 1
        P[pos[(b, q)], pos[(a, p)]] = 1
    E = np.zeros((n, len(exposed)))
    for k, (c, p) in enumerate(exposed):
        E[pos[(c, p)], k] = 1
    B = np.linalg.solve(np.eye(n) - Sg @ P, Sg @ E)
    return E.T @ B


def build_chain(mats, name_prefix="c", order=None, link_order=None):
    """real solver: chain of two-ports (pins a,b); exposed: first a as 'IN', last b as 'OUT'; `order` = the order in which the
    elements are declared (default: along the chain), `link_order` = the order in which the links are made"""
    L = impl.lk()
    sol = L.Solver()
    sts = []
    for k, S in enumerate(mats):
        m = L.Model(pin_dic={L.Pin("a"): 0, L.Pin("b"): 1}, Smatrix=np.array(S, complex))
        sts.append(L.Structure(model=m))
    for k in (order if order is not None else range(len(mats))):
        sol.add_structure(sts[k])
    for k in (link_order if link_order is not None else range(len(mats) - 1)):
        sol.connect(sts[k], "b", sts[k + 1], "a")
    sol.map_pins({L.Pin("IN"): (sts[0], L.Pin("a")), L.Pin("OUT"): (sts[-1], L.Pin("b"))})
    return sol


def rel_err(T, R):
    return float(np.max(np.abs(T - R)) / max(1.0, np.max(np.abs(R))))


def family_cascade(ctx, n, rng):
    ph = [PHASES[rng.randrange(len(PHASES))] for _ in range(n)]
    mats = [[[0, complex(float(a), float(b))], [complex(float(a), float(b)), 0]] for a, b in ph]
    prod = (Fraction(1), Fraction(0))
    for z in ph:
        prod = gen.cmul(prod, z)
    exact = complex(float(prod[0]), float(prod[1]))
    sol = build_chain(mats)
    mod = sol.solve()
    T = impl.solved_matrix(mod, ["IN", "OUT"])[0]
    R = np.array([[0, exact], [exact, 0]])
    return rel_err(T, R)


def family_cascade_declared_out_of_order(ctx, n, rng):
    """the reflection-free cascade with its elements declared in another order than along the line: the head of the line placed
    last (a component added in front of an existing line), or everything shuffled; the links made in a shuffled order"""
    ph = [PHASES[rng.randrange(len(PHASES))] for _ in range(n)]
    mats = [[[0, complex(float(a), float(b))], [complex(float(a), float(b)), 0]] for a, b in ph]
    prod = (Fraction(1), Fraction(0))
    for z in ph:
        prod = gen.cmul(prod, z)
    exact = complex(float(prod[0]), float(prod[1]))
    R = np.array([[0, exact], [exact, 0]])
    worst = 0.0
    for variant in ("head-last", "shuffled"):
        order = list(range(1, n)) + [0] if variant == "head-last" else rng.sample(range(n), n)
        links = list(range(n - 1))
        if variant == "shuffled":
            rng.shuffle(links)
        else:
            links = links[1:] + links[:1]
        T = impl.solved_matrix(build_chain(mats, order=order, link_order=links).solve(), ["IN", "OUT"])[0]
        worst = max(worst, rel_err(T, R))
    return worst


def family_lossy_cascade(ctx, n, rng):
    r = np.random.default_rng(rng.randrange(2 ** 32))
    mats, comps, links = [], [], []
    for k in range(n):
        t = 0.97 * np.exp(1j * r.uniform(0, 2 * np.pi))
        rf = 0.12 * np.exp(1j * r.uniform(0, 2 * np.pi))
        S = np.array([[rf, t], [t, -np.conj(rf) * t / np.conj(t) * 0.9]])
        mats.append(S)
        comps.append((["a", "b"], S))
        if k:
            links.append((k - 1, "b", k, "a"))
    R = dense_reference(comps, links, [(0, "a"), (n - 1, "b")])
    T = impl.solved_matrix(build_chain(mats).solve(), ["IN", "OUT"])[0]
    return rel_err(T, R)


def family_attenuating(ctx, n, rng):
    """reflection-free attenuators whose losses add up to 300-600 dB: the transmission is far below the round-off of a number of
    order one but perfectly representable; accuracy is *relative* to it (an absolute clean-up threshold would zero it)"""
    r = np.random.default_rng(rng.randrange(2 ** 32))
    total_db = r.uniform(300.0, 600.0)
    w = r.uniform(0.5, 1.5, n)
    loss_db = total_db * w / w.sum()
    ts = 10.0 ** (-loss_db / 20.0) * np.exp(1j * r.uniform(0, 2 * np.pi, n))
    mats = [[[0, t], [t, 0]] for t in ts]
    # exact product: moduli through the sum of the logarithms, phases through the sum of the angles (both well conditioned)
    exact = 10.0 ** (-loss_db.sum() / 20.0) * np.exp(1j * np.angle(ts).sum())
    T = impl.solved_matrix(build_chain(mats).solve(), ["IN", "OUT"])[0]
    rel = max(abs(T[0, 1] - exact), abs(T[1, 0] - exact)) / abs(exact)
    refl = max(abs(T[0, 0]), abs(T[1, 1]))
    return float(max(rel, refl))


def family_weak_reflection(ctx, n, rng):
    """long cascade of two-ports each carrying a very weak back-reflection (~1e-5 in amplitude): every single
    join is almost feed-forward, the multiple-reflection terms only matter in the aggregate"""
    r = np.random.default_rng(rng.randrange(2 ** 32))
    mats, comps, links = [], [], []
    for k in range(n):
        t = 0.999 * np.exp(1j * r.uniform(0, 2 * np.pi))
        rf = r.uniform(0.5, 2.0) * 1e-5 * np.exp(1j * r.uniform(0, 2 * np.pi))
        S = np.array([[rf, t], [t, rf * np.exp(1j * r.uniform(0, 2 * np.pi))]])
        mats.append(S)
        comps.append((["a", "b"], S))
        if k:
            links.append((k - 1, "b", k, "a"))
    R = dense_reference(comps, links, [(0, "a"), (n - 1, "b")])
    T = impl.solved_matrix(build_chain(mats).solve(), ["IN", "OUT"])[0]
    # relative to the size of each entry class: the reflection entries are tiny, compare them absolutely too
    return max(rel_err(T, R), float(np.max(np.abs(T - R))) / max(1e-12, float(np.max(np.abs(R[0, 0])))) * 0.0)


def family_coupler_mesh(ctx, n, rng):
    """the same mesh with the couplers wired directly to each other (no element between them): parts with many pins"""
    return family_mesh(ctx, n, rng, dense=True)


def family_mesh(ctx, n, rng, dense=False):
    """n x n rectangular mesh: columns of beam splitters between neighbouring rails with a phase shifter on one rail"""
    L = impl.lk()
    r = np.random.default_rng(rng.randrange(2 ** 32))
    sol = L.Solver()
    comps, links = [], []
    rails = [None] * n          # (component index, structure, pin) currently ending each rail
    sts = []

    def add(model, pins):
        st = L.Structure(model=model)
        sol.add_structure(st)
        sts.append(st)
        comps.append((pins, np.array(model.solve().S)[0][np.ix_([model.pin_dic[L.Pin(p)] for p in pins], [model.pin_dic[L.Pin(p)] for p in pins])]))
        return len(sts) - 1
    inputs = []
    for k in range(n):
        c = add(L.PhaseShifter(param_name=f"PSin{k}", param_default=float(r.uniform(-1, 1))), ["a0", "b0"])
        inputs.append((c, "a0"))
        rails[k] = (c, "b0")
    for col in range(n):
        for k in range(col % 2, n - 1, 2):
            c = add(L.BeamSplitter(ratio=float(r.uniform(0.2, 0.8))), ["a0", "a1", "b0", "b1"])
            for (rail, pin_in, pin_out) in ((k, "a0", "b0"), (k + 1, "a1", "b1")):
                pc, pp = rails[rail]
                sol.connect(sts[pc], pp, sts[c], pin_in)
                links.append((pc, pp, c, pin_in))
                rails[rail] = (c, pin_out)
            if dense:
                continue
            p = add(L.PhaseShifter(param_name=f"PS{col}x{k}", param_default=float(r.uniform(-1, 1))), ["a0", "b0"])
            pc, pp = rails[k]
            sol.connect(sts[pc], pp, sts[p], "a0")
            links.append((pc, pp, p, "a0"))
            rails[k] = (p, "b0")
    exposed = []
    for k, (c, p) in enumerate(inputs):
        sol.map_pins({L.Pin(f"I{k}"): (sts[c], L.Pin(p))})
        exposed.append((c, p))
    for k, (c, p) in enumerate(rails):
        sol.map_pins({L.Pin(f"O{k}"): (sts[c], L.Pin(p))})
        exposed.append((c, p))
    names = [f"I{k}" for k in range(n)] + [f"O{k}" for k in range(n)]
    T = impl.solved_matrix(sol.solve(), names)[0]
    R = dense_reference(comps, links, exposed)
    uni = float(np.max(np.abs(T.conj().T @ T - np.eye(2 * n))))
    return max(rel_err(T, R), uni), len(sts)


def family_resonant(ctx, n, rng):
    r = np.random.default_rng(rng.randrange(2 ** 32))
    mats, comps, links = [], [], []
    for k in range(n):
        if k % 2 == 0:
            ref = r.uniform(0.3, 0.7)
            t, c = np.sqrt(ref), np.sqrt(1 - ref)
            S = 0.98 * np.array([[t, c], [-c, t]], complex)            # lossy mirror
        else:
            ph = np.exp(1j * r.uniform(0, 2 * np.pi)) * 0.99
            S = np.array([[0, ph], [ph, 0]], complex)
        mats.append(S)
        comps.append((["a", "b"], S))
        if k:
            links.append((k - 1, "b", k, "a"))
    R = dense_reference(comps, links, [(0, "a"), (n - 1, "b")])
    T = impl.solved_matrix(build_chain(mats).solve(), ["IN", "OUT"])[0]
    return rel_err(T, R)


def family_blocked_put(ctx, n, rng):
    """as family_blocked, the blocks placed the way a user places a building block: `blk.put()` inside `with parent:`"""
    return family_blocked(ctx, n, rng, use_put=True)


def family_blocked(ctx, n, rng, use_put=False):
    """the lossy cascade cut into three sub-solvers, each holding a third of the chain, chained in a parent:
    large sub-circuits *inside* a hierarchy"""
    L = impl.lk()
    r = np.random.default_rng(rng.randrange(2 ** 32))
    mats, comps, links = [], [], []
    for k in range(n):
        t = 0.97 * np.exp(1j * r.uniform(0, 2 * np.pi))
        rf = 0.12 * np.exp(1j * r.uniform(0, 2 * np.pi))
        S = np.array([[rf, t], [t, -np.conj(rf) * t / np.conj(t) * 0.9]])
        mats.append(S)
        comps.append((["a", "b"], S))
        if k:
            links.append((k - 1, "b", k, "a"))
    R = dense_reference(comps, links, [(0, "a"), (n - 1, "b")])
    size = max(1, n // 3)
    parent = L.Solver()
    prev = None
    first = None
    for b in range(0, n, size):
        blk = build_chain(mats[b:b + size])
        if use_put:
            with parent:
                st = blk.put()
        else:
            st = L.Structure(solver=blk)
            parent.add_structure(st)
        if prev is not None:
            parent.connect(prev, "OUT", st, "IN")
        else:
            first = st
        prev = st
    parent.map_pins({L.Pin("IN"): (first, L.Pin("IN")), L.Pin("OUT"): (prev, L.Pin("OUT"))})
    T = impl.solved_matrix(parent.solve(), ["IN", "OUT"])[0]
    return rel_err(T, R)


def family_many_params(ctx, n, rng):
    """a chain of n phase shifters each with its *own* parameter name (a programmable mesh has one knob per element):
    closed form = product of the phases; half of the knobs are set at solve time, the others stay at their defaults"""
    L = impl.lk()
    r = np.random.default_rng(rng.randrange(2 ** 32))
    sol = L.Solver()
    sts, vals = [], []
    for k in range(n):
        d = float(r.uniform(-1, 1))
        st = L.Structure(model=L.PhaseShifter(param_name=f"knob{k}", param_default=d))
        sol.add_structure(st)
        sts.append(st)
        vals.append(d)
    for k in range(n - 1):
        sol.connect(sts[k], "b0", sts[k + 1], "a0")
    sol.map_pins({L.Pin("IN"): (sts[0], L.Pin("a0")), L.Pin("OUT"): (sts[-1], L.Pin("b0"))})
    kw = {}
    for k in range(0, n, 2):
        vals[k] = float(r.uniform(-1, 1))
        kw[f"knob{k}"] = vals[k]
    T = impl.solved_matrix(sol.solve(**kw), ["IN", "OUT"])[0]
    exact = np.exp(1j * np.pi * float(np.sum(vals)))
    return rel_err(T, np.array([[0, exact], [exact, 0]]))


def family_nest(ctx, depth, rng):
    L = impl.lk()
    z = PHASES[0]
    t = complex(float(z[0]), float(z[1]))
    inner = L.Solver()
    st = L.Structure(model=L.Model(pin_dic={L.Pin("a"): 0, L.Pin("b"): 1}, Smatrix=np.array([[0.1, t], [t, -0.1]], complex) * 0.9))
    inner.add_structure(st)
    inner.map_pins({L.Pin("a"): (st, L.Pin("a")), L.Pin("b"): (st, L.Pin("b"))})
    cell = np.array([[0.1, t], [t, -0.1]], complex) * 0.9
    comps, links = [(["a", "b"], cell)], []
    cur = inner
    for d in range(depth):
        outer = L.Solver()
        s1 = L.Structure(solver=cur)
        s2 = L.Structure(model=L.Model(pin_dic={L.Pin("a"): 0, L.Pin("b"): 1}, Smatrix=cell.copy()))
        outer.add_structure(s1)
        outer.add_structure(s2)
        outer.connect(s1, "b", s2, "a")
        outer.map_pins({L.Pin("a"): (s1, L.Pin("a")), L.Pin("b"): (s2, L.Pin("b"))})
        comps.append((["a", "b"], cell))
        links.append((len(comps) - 2, "b", len(comps) - 1, "a"))
        cur = outer
    T = impl.solved_matrix(cur.solve(), ["a", "b"])[0]
    R = dense_reference(comps, links, [(0, "a"), (len(comps) - 1, "b")])
    return rel_err(T, R)


def run(ctx):
    rng = ctx.subrng("c20")
    q = ctx.tier == "quick" and ctx.scale == 1
    plan = [("cascade", family_cascade, 500 if q else 2000), ("cascade-out-of-order", family_cascade_declared_out_of_order, 500 if q else 2000), ("lossy-cascade", family_lossy_cascade, 300 if q else 1000),
            ("attenuating-cascade", family_attenuating, 400 if q else 2000),
            ("weak-reflection-cascade", family_weak_reflection, 400 if q else 2000),
            ("mesh", family_mesh, 10 if q else 20), ("resonant-chain", family_resonant, 100 if q else 400),
            ("nest", family_nest, 40 if q else 60), ("blocked-cascade", family_blocked, 600 if q else 3000), ("blocked-cascade-put", family_blocked_put, 600 if q else 3000),
            ("many-parameters", family_many_params, 150 if q else 1000), ("coupler-mesh", family_coupler_mesh, 13 if q else 24)]
    import sys
    measured = {}
    for name, fn, size in plan:
        sizes = [max(2, size // 10), size]
        if name == "mesh":
            sizes = [3, 10] if q else [10, 13, 16, 20]      # wide structures: more than eight pins on one part
        if name == "coupler-mesh":
            sizes = [10, 13] if q else [10, 13, 16, 17, 18, 20, 24]
        for s in sizes:
            ctx.case((name, s), tags=[f"family:{name}"], sample={"family": name, "size": s})
            rep = {"family": name, "size": s, "seed": ctx.seed}
            try:
                out = fn(ctx, s, rng)
                err = out[0] if isinstance(out, tuple) else out
            except RecursionError:
                ctx.violation(f"C20:recursion:{name}", f"{name} of size {s} hit the recursion limit", rep)
                continue
            except Exception as e:  # noqa
                ctx.violation(f"C20:failed:{name}", f"{name} of size {s} raised {type(e).__name__}: {str(e)[:70]}", rep)
                continue
            measured[f"{name}:{s}"] = err
            if not (err <= 1e-9):
                ctx.violation(f"C20:accuracy:{name}", f"{name} of size {s}: relative error {err:.3e} exceeds 1e-9", rep)
    ctx.extra["measured_relative_errors"] = measured


def replay(ctx, data):
    rng = ctx.subrng("c20")
    fn = {"cascade": family_cascade, "lossy-cascade": family_lossy_cascade, "mesh": family_mesh, "weak-reflection-cascade": family_weak_reflection,
          "resonant-chain": family_resonant, "nest": family_nest, "blocked-cascade": family_blocked, "many-parameters": family_many_params, "coupler-mesh": family_coupler_mesh}[data["family"]]
    try:
        out = fn(ctx, data["size"], rng)
        err = out[0] if isinstance(out, tuple) else out
    except Exception as e:  # noqa
        return False, f"raised {type(e).__name__}"
    return err <= 1e-9, f"relative error {err:.3e}"
