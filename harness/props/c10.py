"""C10 — monitors report the true internal waves and do not disturb the circuit.
Oracle: full wave vectors a, b of an independent numpy global solve."""
from __future__ import annotations

from fractions import Fraction

import numpy as np

import circuits as cs
import gen
import impl
import props.c04 as c04

RULE = ("random circuits of 2-6 affine probe blocks (1-4 ports) x random non-empty proper subsets of components as "
        "monitors x random complex excitations of a subset of the exposed pins (pins of monitored components included) x "
        "sweep lengths 1-4; amplitudes and powers of both waves on every monitored link, the exact key set, the external "
        "matrix with vs without monitors; a lossless stream for the power balance; distinct = (circuit, monitor set, "
        "excitation); non-trivial = at least one link between a monitored and a non-monitored component")
TRUSTED = ["numpy global reference solve giving all internal waves"]
ASSUMPTIONS = ["monitored structures carry distinct monitor names, so (name, pin) keys are distinct"]
EXPLANATION = "kernel-level: int_complete returns the unique interface waves (C18_interface); no-disturb is a corollary of C03"


def full_waves(conc, u):
    """all incoming/outgoing waves of the reference solution for exposed excitation u"""
    T, cond, B, info = gen.reference_solve(conc)
    b = B @ u
    a = info["P"] @ b + info["E"] @ u
    return a, b, info["pos"], cond, T


def check(ctx, pcirc, mons, sweep, exc, replay, lossless=False):
    L = impl.lk()
    names = cs.exposed_names(pcirc)
    ns = len(sweep)
    try:
        sol, sts = impl.build_param_solver(pcirc)
        for c in mons:
            sol.monitor_structure(sts[c], name=f"M{c}")
        kw = {"pa": np.array([float(x) for x in sweep])} if ns > 1 else {"pa": float(sweep[0])}
        if ns > 1 and (len(pcirc["comps"]) + len(mons)) % 2 == 0:
            # a second keyword of length one next to the sweep (a constant given as a one-element array): it is broadcast along
            # the sweep in the solve and in the columns of the monitor table
            kw["zz"] = np.array([0.25])
        mod = sol.solve(**kw)
        Tm = impl.solved_matrix(mod, names)
        tab_a = mod.get_monitor(dict(exc), power=False)
        tab_p = mod.get_monitor(dict(exc), power=True)
        sol2, _ = impl.build_param_solver(pcirc)
        T0 = impl.solved_matrix(sol2.solve(**kw), names)
    except Exception as e:  # noqa
        if impl.outcome_class(e) == "singular":
            ctx.tag("outcome:singular-raised")
            return True
        ctx.violation(f"C10:raised-{type(e).__name__}", f"solve/get_monitor with monitors raised {type(e).__name__}: {str(e)[:70]}", replay)
        return False
    # expected keys: pins of monitored components linked to non-monitored components
    exp_keys = set()
    for (a, p, b, q) in pcirc["links"]:
        if a in mons and b not in mons:
            exp_keys.add((a, p))
        if b in mons and a not in mons:
            exp_keys.add((b, q))
    # the rows are labelled by the sweep: the parameter columns of the table are the values of the solve, point by point
    if ns > 1:
        for tab in (tab_a, tab_p):
            for nm, vals in kw.items():
                want_col = np.broadcast_to(np.asarray(vals, float).reshape(-1), (ns,))
                if nm not in tab.columns or not np.allclose(np.asarray(tab[nm], float), want_col, rtol=0, atol=1e-12):
                    ctx.violation("C10:table-labels", f"the column {nm} of the monitor table is not the sweep of the solve (rows would be attributed to the wrong point)", replay)
                    return False
    cols = {c for c in tab_a.columns if c.endswith("_i") or c.endswith("_o")}
    want = {f"M{c}_{p}_{s}" for (c, p) in exp_keys for s in ("i", "o")}
    if cols != want:
        ctx.violation("C10:monitor-keys", f"monitor columns {sorted(cols)} != links between monitored and other components {sorted(want)}", replay)
        return False
    u = np.array([exc.get(nm, 0.0) for nm in names], complex)
    for k in range(ns):
        conc = c04.at_point(pcirc, {"pa": sweep[k]})
        a, b, pos, cond, Tref = full_waves(conc, u)
        if cond > 1e6:
            ctx.tag("skipped:ill-conditioned")
            continue
        tol = 1e-9 * max(1.0, cond)
        if Tm[k].size and (np.max(np.abs(Tm[k] - Tref)) > tol or np.max(np.abs(Tm[k] - T0[k])) > tol):
            ctx.violation("C10:disturbs", f"declaring monitors changes the external matrix at sweep point {k} by {np.max(np.abs(Tm[k] - T0[k])):.3e}", replay)
            return False
        if exp_keys and not model_readout(ctx, conc, mons, exc, exp_keys, tab_a, Tm[k], names, k, tol, replay):
            return False
        pin_tot = 0.0
        pout_tot = 0.0
        for (c, p) in exp_keys:
            gi, go = tab_a[f"M{c}_{p}_i"].iloc[k], tab_a[f"M{c}_{p}_o"].iloc[k]
            ai, bo = a[pos[(c, p)]], b[pos[(c, p)]]
            if abs(gi - ai) > tol or abs(go - bo) > tol:
                ctx.violation("C10:wrong-waves", f"monitor M{c}_{p} at sweep point {k}: reported in/out {gi:.6f}/{go:.6f}, network solution {ai:.6f}/{bo:.6f}", replay)
                return False
            pi_, po_ = tab_p[f"M{c}_{p}_i"].iloc[k], tab_p[f"M{c}_{p}_o"].iloc[k]
            if abs(pi_ - abs(ai) ** 2) > tol or abs(po_ - abs(bo) ** 2) > tol:
                ctx.violation("C10:wrong-power", f"monitor M{c}_{p} power mode is not the squared modulus of the amplitude", replay)
                return False
            pin_tot += pi_
            pout_tot += po_
        linked_pins = {(a_, p_) for (a_, p_, b_, q_) in pcirc["links"]} | {(b_, q_) for (a_, p_, b_, q_) in pcirc["links"]}
        closed = all((c_, p_) in linked_pins for c_ in mons for p_ in pcirc["comps"][c_]["pins"])
        # balance only when the monitored part can exchange power through the monitored links alone:
        # no exposed pin of its own and no dangling (unexposed free) pin either
        if lossless and closed and not any(c in mons for (_, c, _) in pcirc["exposed"]):
            ctx.tag("power-balance-checked")
            if abs(pin_tot - pout_tot) > 1e-8 * max(1.0, cond) * max(1.0, pin_tot):
                ctx.violation("C10:power-balance", f"lossless monitored part without exposed pins: power in {pin_tot:.9f} != out {pout_tot:.9f}", replay)
                return False
    # read-outs do not remember earlier excitations: one exposed pin at a time on the same solved model, then the first one again
    later = [{nm: 1.0} for nm in names[:3]] + [dict(exc)]
    for exc2 in later:
        try:
            tab2 = mod.get_monitor(dict(exc2), power=False)
        except Exception as e:  # noqa
            ctx.violation(f"C10:raised-{type(e).__name__}", f"a later get_monitor on the same solved model raised {type(e).__name__}", replay)
            return False
        u2 = np.array([exc2.get(nm, 0.0) for nm in names], complex)
        for k in range(ns):
            conc = c04.at_point(pcirc, {"pa": sweep[k]})
            a, b, pos, cond, Tref = full_waves(conc, u2)
            if cond > 1e6:
                continue
            tol = 1e-9 * max(1.0, cond)
            for (c, p) in exp_keys:
                gi, go = tab2[f"M{c}_{p}_i"].iloc[k], tab2[f"M{c}_{p}_o"].iloc[k]
                ai, bo = a[pos[(c, p)]], b[pos[(c, p)]]
                if abs(gi - ai) > tol or abs(go - bo) > tol:
                    ctx.violation("C10:readout-remembers", f"monitor M{c}_{p} at sweep point {k} for the later excitation {sorted(exc2)} on the same solved model: "
                                  f"reported in/out {gi:.6f}/{go:.6f}, network solution {ai:.6f}/{bo:.6f}", replay)
                    return False
    # a solved model is a snapshot: the same solver solved again at other values (and with another sweep length) must not change
    # what the *earlier* result reports
    try:
        shifted = [float(x) + 0.37 for x in sweep]
        sol.solve(pa=np.array(shifted + [0.11]) if ns > 1 else shifted[0])
        tab_again = mod.get_monitor(dict(exc), power=False)
    except Exception as e:  # noqa
        if impl.outcome_class(e) == "singular":
            return True
        ctx.violation(f"C10:raised-{type(e).__name__}", f"reading an earlier result after a later solve raised {type(e).__name__}: {str(e)[:60]}", replay)
        return False
    for col in tab_a.columns:
        x, y = np.asarray(tab_a[col], complex), np.asarray(tab_again[col], complex) if col in tab_again.columns else None
        if y is None or x.shape != y.shape or (x.size and float(np.max(np.abs(x - y))) > 1e-12):
            ctx.violation("C10:earlier-result-changed", f"column {col} of the monitor table of an earlier result changed after the solver was solved again at other values", replay)
            return False
    return True


def model_readout(ctx, conc, mons, exc, exp_keys, tab_a, Tk, names, k, tol, replay):
    """correspondence of the executable monitor path (`Monitor.solveMonitored`, Core/Monitor.lean: two elimination loops,
    `intermediate`, `int_complete`, exact Gaussian rationals) with the running code: the same links are reported, with the
    same entering / leaving waves, and the same external matrix"""
    from fractions import Fraction
    from common import cfrac_json

    def to_c(v):
        z = complex(v)
        return (Fraction(z.real), Fraction(z.imag))
    req = {"op": "monsolve", "mon": sorted(mons), "exc": [[nm, cfrac_json(to_c(v))] for nm, v in exc.items()]}
    req.update(gen.circuit_json(conc))
    ans = ctx.driver.ask(req)
    if "links" not in ans:
        if ans.get("err") == "singular":
            ctx.tag("monitor-model:singular")
            return True
        ctx.disagreement("C10.model.monitor", f"model: {ans.get('err', ans)}, implementation returned a read-out", replay)
        return False
    ctx.tag("monitor-model:compared")
    keys = [(int(b), q) for (a, p, b, q) in ans["links"]]
    if set(keys) != set(exp_keys) or len(keys) != len(set(keys)):
        ctx.disagreement("C10.model.monitor", f"model reports links {sorted(keys)}, implementation {sorted(exp_keys)}", replay)
        return False
    from common import parse_cfrac, cfrac_to_complex
    for (c, p), wi, wo in zip(keys, ans["inward"], ans["outward"]):
        mi, mo = cfrac_to_complex(parse_cfrac(wi)), cfrac_to_complex(parse_cfrac(wo))
        gi, go = tab_a[f"M{c}_{p}_i"].iloc[k], tab_a[f"M{c}_{p}_o"].iloc[k]
        if abs(gi - mi) > tol or abs(go - mo) > tol:
            ctx.disagreement("C10.model.monitor", f"link M{c}_{p} at sweep point {k}: implementation {gi:.6f}/{go:.6f}, model {mi:.6f}/{mo:.6f}", replay)
            return False
    # the table itself: column names and values as `get_monitor` (amplitude mode) tabulates them
    cols = {c for c in tab_a.columns if c.endswith("_i") or c.endswith("_o")}
    if [k_ for k_, _ in ans["table"]] and ({k_ for k_, _ in ans["table"]} != cols or len(ans["table"]) != len(cols)):
        ctx.disagreement("C10.model.monitor", f"model tabulates the columns {sorted(k_ for k_, _ in ans['table'])}, implementation {sorted(cols)}", replay)
        return False
    for k_, v_ in ans["table"]:
        if abs(tab_a[k_].iloc[k] - cfrac_to_complex(parse_cfrac(v_))) > tol:
            ctx.disagreement("C10.model.monitor", f"column {k_} at sweep point {k}: implementation {tab_a[k_].iloc[k]:.6f}, model {cfrac_to_complex(parse_cfrac(v_)):.6f}", replay)
            return False
    n = len(names)
    if n:
        flat = [z for row in ans["T"] for z in row]
        Tmod = gen.json_mat_np(flat, n, n)
        if np.max(np.abs(Tmod - Tk)) > tol:
            ctx.disagreement("C10.model.monitor", f"external matrix with monitors: model and implementation differ at sweep point {k}", replay)
            return False
    return True


def gen_case(rng, lossless=False):
    if lossless:
        circ = gen.random_circuit(rng, ncomp_max=5, ports_max=3, unitary=True, p_link=0.7, p_expose=0.9)
        for comp in circ["comps"]:
            n = len(comp["pins"])
            comp["S0"] = comp["S"]
            comp["S1"] = [[gen.CZ for _ in range(n)] for _ in range(n)]
            comp["param"] = "pa"
            comp["default"] = Fraction(0)
            del comp["S"]
        pcirc = circ
    else:
        pcirc, _ = c04.random_pcirc(rng, 6)
        for comp in pcirc["comps"]:
            comp["param"] = "pa"
            comp["default"] = Fraction(0)
    n = len(pcirc["comps"])
    if n < 2:
        return None
    k = rng.randint(1, n - 1)
    mons = sorted(rng.sample(range(n), k))
    ns = 1 if lossless else rng.choice([1, 1, 2, 3, 4])
    sweep = [Fraction(rng.randint(-8, 8), 8) for _ in range(ns)]
    if ns >= 3 and rng.random() < 0.35:
        sweep[-1] = sweep[0]            # periodic sweep: equal end points, different interior
    names = cs.exposed_names(pcirc)
    r = np.random.default_rng(rng.randrange(2 ** 32))
    exc = {nm: complex(round(r.normal(), 3), round(r.normal(), 3)) for nm in names if rng.random() < 0.6}
    return pcirc, mons, sweep, exc


def run(ctx):
    rng = ctx.subrng("c10")
    n = ctx.budget(300, 2500)
    for i in range(n):
        if ctx.time_left() < 0:
            break
        lossless = (i % 5 == 4)
        g = gen_case(rng, lossless)
        if g is None:
            continue
        pcirc, mons, sweep, exc = g
        replay = {"pcirc": c04.pcirc_json(pcirc), "mons": mons, "sweep": [gen.frac_str(x) for x in sweep],
                  "exc": {k: [v.real, v.imag] for k, v in exc.items()}, "lossless": lossless}
        cross = any((a in mons) != (b in mons) for (a, p, b, q) in pcirc["links"])
        ctx.case(replay, nontrivial=cross, tags=[f"mons:{len(mons)}", f"ns:{len(sweep)}", "lossless" if lossless else "lossy",
                                                 "cross-links" if cross else "no-cross-link",
                                                 "excites-monitored" if any(c in mons for (nm, c, _) in pcirc["exposed"] if nm in exc) else "excites-rest"],
                 sample={"comps": len(pcirc["comps"]), "mons": mons, "links": pcirc["links"]} if i < 2 else None)
        check(ctx, pcirc, mons, sweep, exc, replay, lossless)


def replay(ctx, data):
    pcirc = c04.pcirc_from_json(data["pcirc"])
    exc = {k: complex(v[0], v[1]) for k, v in data["exc"].items()}
    check(ctx, pcirc, data["mons"], [Fraction(x) for x in data["sweep"]], exc, data, data.get("lossless", False))
    if ctx.violations:
        return False, ctx.violations[0]["what"]
    return True, "monitors report the network's interface waves and do not change the external matrix"
