"""C04 — a parameter sweep equals the stack of the individual scalar solves.
Oracles: S[k] of the sweep vs a scalar solve of a *fresh* instance at the k-th values (bare library blocks and
solvers of affine probe blocks S0 + p*S1), per-point numpy global solve, rejection of inconsistent lengths."""
from __future__ import annotations

import copy
from fractions import Fraction

import numpy as np

import circuits as cs
import gen
import impl

RULE = ("(a) every sweepable library block x random assignments of scalar / length-1 / length-n values (n in 2..6, "
        "thorough up to 40) to its parameters; (b) random circuits of affine probe blocks S0 + p*S1 (dyadic, contractive; "
        "S0 often reflectionless so that couplings vanish exactly at p = 0) with 1-3 named parameters swept, first "
        "sweep value often exactly 0; (c) inconsistent lengths; distinct = (block or circuit, assignment); non-trivial = n >= 2")
TRUSTED = ["numpy per-point reference solve", "translator tables.py for the buffer/copy facts about create_S and Model.solve"]
ASSUMPTIONS = ["A-numpy-batch (see C18): matmul/inv act per leading index",
               "FPRGaussian is exercised at 1x2 ports and 2 points only (quad_vec cost)"]
EXPLANATION = "normalisation law and the buffer/aliasing model are Lean theorems; the pipeline is tied by point-wise comparison"

TOL = 1e-9


# ------------------------------------------------------------------ library blocks
def block_factories():
    L = impl.lk()

    def neff(wl, R=None, w=None, pol=None, **kw):
        return 2.0 + 0.1 * wl + (0.01 * w if w else 0.0)

    def uw_index(wl, T=0.0, **kw):
        return 1.5 + 0.01 * wl + 0.001 * T
    return {
        "Waveguide": (lambda: L.Waveguide(L=10.0, n=1.5, wl=1.55), {"wl": (1.5, 1.6)}),
        "UserWaveguide": (lambda: L.UserWaveguide(L=7.0, func=uw_index, param_dic={"wl": 1.55, "T": 0.0}), {"wl": (1.5, 1.6), "T": (0.0, 50.0)}),
        "UserWaveguide2m": (lambda: L.UserWaveguide(L=7.0, func=uw_index, param_dic={"wl": 1.55, "T": 0.0},
                                                    allowedmodes={"TE": {}, "TM": {"T": 5.0}}), {"wl": (1.5, 1.6)}),
        # the index function reads T, which the block does not declare (no param_dic): swept like any other parameter
        "UserWaveguideBare": (lambda: L.UserWaveguide(L=7.0, func=uw_index), {"wl": (1.5, 1.6), "T": (0.0, 50.0)}),
        "PhaseShifter": (lambda: L.PhaseShifter(), {"PS": (-1.0, 1.0)}),
        "PushPullPhaseShifter": (lambda: L.PushPullPhaseShifter(), {"PS": (-1.0, 1.0)}),
        "PolRot": (lambda: L.PolRot(), {"angle": (-1.0, 1.0)}),
        "TH_PhaseShifter": (lambda: L.TH_PhaseShifter(L=5.0, Neff=neff, R=10.0, w=1.0, wl=1.55, pol=0), {"wl": (1.5, 1.6), "PS": (-1.0, 1.0), "w": (0.5, 2.0)}),
        "Ring": (lambda: L.Ring(R=10.0, n=1.5, alpha=0.9, t=0.8), {"wl": (1.5, 1.6)}),
        "FPR": (lambda: L.FPR(n=2, m=3, R=50.0, d1=2.0, d2=2.0), {"wl": (1.5, 1.6)}),
        "CWA": (lambda: L.CWA(N=3, L=20.0, n=1.5, k=0.1), {"wl": (1.5, 1.6)}),
        "FPRGaussian": (lambda: L.FPRGaussian(n=1, m=2, R=50.0, d1=2.0, d2=2.0, w1=1.0, w2=1.0, n_slab=2.0), {"wl": (1.5, 1.6)}),
        "BeamSplitter": (lambda: L.BeamSplitter(ratio=0.3), {"wl": (1.5, 1.6)}),
        "Mirror": (lambda: L.Mirror(ref=0.4, phase=0.2), {"wl": (1.5, 1.6)}),
    }


REQUIRED = {"Ring": ["wl"], "FPR": ["wl"], "FPRGaussian": ["wl"], "UserWaveguideBare": ["wl"]}


def rand_assignment(rng, params, n, required=()):
    """returns ({name: value as passed}, [per-point dict])"""
    passed, cols = {}, {}
    names = list(params)
    swept_any = False
    for nm in names:
        lo, hi = params[nm]
        mode = rng.choice(["scalar", "len1", "lenN", "lenN", "absent"])
        if mode == "absent" and nm in required:
            mode = "scalar"
        if mode == "absent":
            continue
        if mode == "scalar":
            v = rng.uniform(lo, hi)
            passed[nm] = v
            cols[nm] = [v] * n
        elif mode == "len1":
            v = rng.uniform(lo, hi)
            passed[nm] = np.array([v])
            cols[nm] = [v] * n
        else:
            vs = [rng.uniform(lo, hi) for _ in range(n)]
            if rng.random() < 0.12:
                vs = [vs[0]] * n
            elif lo < 0 and rng.random() < 0.3:
                # integer-valued scan around zero (np.arange(-2, 3) and the like): small negative integers are where
                # value-keyed shortcuts (hash(-1) == hash(-2), truthiness of 0) go wrong
                grid = [-2, -1, 0, 1, 2, -3, 3]
                rng.shuffle(grid)
                grid = (grid + [rng.randint(-3, 3) for _ in range(n)])[:n]          # any sweep length
                vs = [float(v) for v in grid] if rng.random() < 0.5 else sorted(float(v) for v in grid)
                if rng.random() < 0.5:
                    passed[nm] = np.array(vs).astype(int)
                    cols[nm] = vs
                    swept_any = True
                    continue
            passed[nm] = np.array(vs) if rng.random() < 0.7 else list(vs)
            cols[nm] = vs
            swept_any = True
    points = [{nm: cols[nm][k] for nm in cols} for k in range(n if swept_any else 1)]
    return passed, points, swept_any


def check_block(ctx, rng, name, factory, params, n, force=False):
    passed, points, swept = rand_assignment(rng, params, n, REQUIRED.get(name, ()))
    if force and not swept:
        nm = list(params)[0]
        lo, hi = params[nm]
        vs = [rng.uniform(lo, hi) for _ in range(n)]
        passed = {nm: np.array(vs)}
        points = [{nm: v} for v in vs]
        swept = True
    if not swept and rng.random() < 0.7:
        return
    replay = {"kind": "block", "block": name, "passed": {k: (list(map(float, np.atleast_1d(v)))) for k, v in passed.items()},
              "shapes": {k: ("scalar" if np.ndim(v) == 0 else len(v)) for k, v in passed.items()}}
    ctx.case(("block", name, replay["passed"]), nontrivial=len(points) >= 2, tags=[f"block:{name}", f"ns:{len(points)}"],
             sample=replay if ctx.evaluations < 2 else None)
    return run_block_case(ctx, name, factory, passed, points, replay)


def run_block_case(ctx, name, factory, passed, points, replay):
    try:
        sweep = factory().solve(**copy.deepcopy(passed))
        S = np.array(sweep.S)
    except Exception as e:  # noqa
        ctx.violation(f"C04:block-sweep-{impl.outcome_class(e)}:{name}", f"sweep of {name} raised {type(e).__name__}", replay)
        return False
    if S.shape[0] != len(points):
        ctx.violation(f"C04:block-sweep-length:{name}", f"sweep of {name} has {S.shape[0]} points, expected {len(points)}", replay)
        return False
    for k, pt in enumerate(points):
        ref = np.array(factory().solve(**pt).S)[0]
        if not np.allclose(S[k], ref, atol=1e-12, rtol=1e-12):
            last = np.allclose(S[k], np.array(factory().solve(**points[-1]).S)[0], atol=1e-12)
            ctx.violation(f"C04:buffer-block:{name}" if last else f"C04:block-sweep-wrong:{name}",
                          f"sweep of bare {name}: point {k} differs from the scalar solve of that point"
                          + (" (it equals the LAST point's matrix: shared buffer)" if last else ""), replay)
            return False
    return True


# ------------------------------------------------------------------ solvers of affine probes
def random_pcirc(rng, nmax=5, shared_names=True):
    circ = gen.random_circuit(rng, ncomp_max=nmax, ports_max=3, p_link=0.8, p_expose=0.8, shared_names=shared_names)
    pnames = ["pa", "pb", "pc"][: rng.randint(1, 3)]
    # one default per parameter name (the solver keeps a single default per name: see C05)
    defaults = {nm: Fraction(rng.randint(-4, 4), 4) for nm in pnames}
    for comp in circ["comps"]:
        n = len(comp["pins"])
        comp["S0"] = gen.contractive(rng, n, target=0.4, kind=rng.choice(["reflectionless", "reflectionless", "general", "sparse", "symmetric", "symmetric"]))
        if rng.random() < 0.15:
            comp["S0"] = [[gen.CZ for _ in range(n)] for _ in range(n)]
        comp["S1"] = gen.contractive(rng, n, target=0.4, kind=rng.choice(["general", "symmetric"]))
        comp["param"] = rng.choice(pnames)
        comp["default"] = defaults[comp["param"]]
        if rng.random() < 0.25:
            # a plain fixed-matrix Model (no parameters of its own) among the parametric blocks
            comp["fixed"] = True
            comp["S1"] = [[gen.CZ for _ in range(n)] for _ in range(n)]
        del comp["S"]
    return circ, pnames


def at_point(pcirc, values):
    """concrete circuit at given parameter values (exact Fractions)"""
    c = {"comps": [], "links": pcirc["links"], "exposed": pcirc["exposed"]}
    for comp in pcirc["comps"]:
        p = values.get(comp["param"], comp["default"])
        n = len(comp["pins"])
        S = [[gen.cadd(comp["S0"][i][j], gen.cmul((p, Fraction(0)), comp["S1"][i][j])) for j in range(n)] for i in range(n)]
        c["comps"].append({"pins": comp["pins"], "idx": comp["idx"], "S": S})
    return c


def pcirc_json(pcirc):
    return {"comps": [{"pins": c["pins"], "idx": c["idx"], "S0": gen.mat_json(c["S0"]), "S1": gen.mat_json(c["S1"]),
                       "param": c["param"], "default": gen.frac_str(c["default"]), "fixed": bool(c.get("fixed"))} for c in pcirc["comps"]],
            "links": [list(l) for l in pcirc["links"]], "exposed": [list(e) for e in pcirc["exposed"]]}


def pcirc_from_json(j):
    from common import parse_cfrac
    comps = []
    for c in j["comps"]:
        n = len(c["pins"])
        un = lambda flat: [[parse_cfrac(z) for z in flat[i * n:(i + 1) * n]] for i in range(n)]
        comps.append({"pins": c["pins"], "idx": c["idx"], "S0": un(c["S0"]), "S1": un(c["S1"]), "param": c["param"],
                      "default": Fraction(c["default"]), "fixed": bool(c.get("fixed"))})
    return {"comps": comps, "links": [tuple(l) for l in j["links"]], "exposed": [tuple(e) for e in j["exposed"]]}


def check_solver_sweep(ctx, pcirc, assign, replay):
    """assign: {param: ("scalar", v) | ("len1", v) | ("lenN", [v...])} with Fractions"""
    ns = max([len(v[1]) for v in assign.values() if v[0] == "lenN"] + [1])
    kw = {}
    for nm, (mode, v) in assign.items():
        kw[nm] = float(v) if mode == "scalar" else np.array([float(v)]) if mode == "len1" else np.array([float(x) for x in v])
        # a scan over whole numbers is passed the way a user writes it: np.arange / a list of ints (integer dtype); the constants
        # next to it keep their fractional (or complex) values whatever the dtype of the swept array
        if mode == "lenN" and all(Fraction(x).denominator == 1 for x in v) and (len(v) + len(assign)) % 2 == 0:
            kw[nm] = np.array([int(x) for x in v]) if len(v) % 2 else [int(x) for x in v]
    names = cs.exposed_names(pcirc)
    try:
        sol, sts = impl.build_param_solver(pcirc)
        mod = sol.solve(**kw)
        T = impl.solved_matrix(mod, names)
    except Exception as e:  # noqa
        oc = impl.outcome_class(e)
        if oc == "singular":
            ctx.tag("outcome:singular-raised")
            return True
        ctx.violation(f"C04:solver-sweep-{oc}", f"solver sweep raised {type(e).__name__}", replay)
        return False
    if T.shape[0] != ns:
        ctx.violation("C04:solver-sweep-length", f"solver sweep has {T.shape[0]} points, expected {ns}", replay)
        return False
    for k in range(ns):
        vals = {nm: (v if mode != "lenN" else v[k]) for nm, (mode, v) in assign.items()}
        conc = at_point(pcirc, vals)
        Tref, cond, _, _ = gen.reference_solve(conc)
        if cond > 1e6:
            ctx.tag("skipped:ill-conditioned-point")
            continue
        tol = TOL * max(1.0, cond)
        # scalar solve of a fresh solver at the k-th values
        try:
            sol2, _ = impl.build_param_solver(pcirc)
            Tk = impl.solved_matrix(sol2.solve(**{nm: float(x) for nm, x in vals.items()}), names)[0]
        except Exception as e:  # noqa
            ctx.violation(f"C04:scalar-solve-{impl.outcome_class(e)}", "scalar solve raised", replay)
            return False
        dk = float(np.max(np.abs(T[k] - Tk))) if Tk.size else 0.0
        dr = float(np.max(np.abs(T[k] - Tref))) if Tk.size else 0.0
        if not (dk <= tol):
            ctx.violation("C04:solver-sweep-differs", f"sweep index {k} differs from the scalar solve of the {k}-th values by {dk:.3e}"
                          f" (distance to the exact network solution {dr:.3e})", replay)
            return False
        if not (dr <= tol):
            ctx.violation("C04:solver-sweep-wrong", f"sweep index {k} differs from the network solution by {dr:.3e}", replay)
            return False
        if k == 0 or k == ns - 1:
            mo, Tm = cs.model_solve(ctx, conc)
            if mo != "ok":
                ctx.disagreement("C04.model.point", f"model: {mo} at sweep point {k}", replay)
            elif Tm.size and float(np.max(np.abs(Tm - T[k]))) > tol:
                ctx.disagreement("C04.model.point", f"exact model differs at sweep point {k}", replay)
    return True


def rand_solver_case(rng, nmax):
    pcirc, pnames = random_pcirc(rng, nmax)
    n = rng.randint(2, 6)
    assign = {}
    swept = False
    for nm in pnames:
        mode = rng.choice(["scalar", "len1", "lenN", "lenN", "absent"])
        if mode == "absent":
            continue
        if mode == "lenN":
            vals = [Fraction(rng.randint(-8, 8), 8) for _ in range(n)]
            if rng.random() < 0.25:
                grid = [-2, -1, 0, 1, 2, -3]
                rng.shuffle(grid)
                grid = (grid + [rng.randint(-3, 3) for _ in range(n)])[:n]
                vals = [Fraction(v) for v in grid]          # integer scan around zero (both -1 and -2 present for n >= 5, often otherwise)
            elif rng.random() < 0.5:
                vals[0] = Fraction(0)
            if rng.random() < 0.15:
                vals = [vals[0]] * n            # an array that happens to be constant is still a sweep of n points
            assign[nm] = ("lenN", vals)
            swept = True
        else:
            assign[nm] = (mode, Fraction(rng.randint(-8, 8), 8))
    if not swept:
        nm = pnames[0]
        vals = [Fraction(0)] + [Fraction(rng.randint(-8, 8), 8) for _ in range(n - 1)]
        assign[nm] = ("lenN", vals)
    return pcirc, assign


def assign_json(assign):
    return {nm: [mode, (gen.frac_str(v) if mode != "lenN" else [gen.frac_str(x) for x in v])] for nm, (mode, v) in assign.items()}


def assign_from_json(j):
    return {nm: (mode, (Fraction(v) if mode != "lenN" else [Fraction(x) for x in v])) for nm, (mode, v) in j.items()}


def check_lengths(ctx, rng):
    """inconsistent lengths must be rejected by both entry points; consistent ones accepted"""
    L = impl.lk()
    for _ in range(ctx.budget(10, 60)):
        a, b = rng.randint(2, 6), rng.randint(2, 6)
        ctx.case(("lengths", a, b), tags=["stream:lengths"], nontrivial=a != b)
        rep = {"kind": "lengths", "a": a, "b": b}
        # bare model
        m = L.TH_PhaseShifter(L=5.0, Neff=lambda wl, **k: 2.0, R=1.0, w=1.0, wl=1.5, pol=0)
        try:
            r = m.solve(wl=np.linspace(1.5, 1.6, a), PS=(np.full(b, 0.5) if rng.random() < 0.4 else np.linspace(0, 1, b)))
            ok = True
        except Exception:
            ok = False
        if ok != (a == b):
            ctx.violation("C04:length-check-model", f"bare model sweep with lengths {a},{b}: accepted={ok}", rep)
        # solver
        pcirc, _ = random_pcirc(rng, 3)
        for c, nm in zip(pcirc["comps"], ["pa", "pb", "pa"]):
            c["param"] = nm
        if len({c["param"] for c in pcirc["comps"]}) < 2:
            continue
        try:
            sol, _ = impl.build_param_solver(pcirc)
            const = rng.random() < 0.4
            sol.solve(pa=(np.full(a, 0.25) if const else np.linspace(0, 0.5, a)), pb=np.linspace(0, 0.5, b))
            ok = True
        except ValueError:
            ok = False
        except Exception as e:  # noqa
            if impl.outcome_class(e) == "singular":
                continue
            ok = False
        if ok != (a == b):
            ctx.violation("C04:length-check-solver", f"solver sweep with lengths {a},{b}: accepted={ok}", rep)


def hier_sweep_stream(ctx, rng, data=None):
    """parametric *hierarchies* (sub-solvers placed several times, renamings at every level) solved with array-valued parameters:
    the batched solve of the code against the end-to-end model `PNet.psweep` (lengths normalised as Solver.solve does, length-1
    values broadcast, point i = the scalar model solve at the i-th values), incl. rejected length combinations"""
    import hier
    import props.c11 as c11
    if data is None:
        node = hier.gen_node(rng, rng.randint(2, 3), [0, 0], parametric=True)
        c11.add_renames(rng, node)
        if hier.count_placements(node) > 8:
            return
        vis = hier.visible(node)
        ns = rng.randint(2, 4)
        kw = {}
        for x in vis:
            mode = rng.choice(["scalar", "len1", "lenN", "lenN", "absent"])
            if mode == "scalar":
                kw[x] = gen.frac_str(Fraction(rng.randint(-8, 8), 8))
            elif mode == "len1":
                kw[x] = [gen.frac_str(Fraction(rng.randint(-8, 8), 8))]
            elif mode == "lenN":
                kw[x] = [gen.frac_str(Fraction(rng.randint(-8, 8), 8)) for _ in range(ns)]
        if rng.random() < 0.12 and vis:
            kw[rng.choice(vis)] = [gen.frac_str(Fraction(rng.randint(-8, 8), 8)) for _ in range(ns + 1)]      # may be inconsistent
        data = {"kind": "hier-sweep", "tree": hier.describe(node), "kw": kw}
    node = hier.undescribe(data["tree"])
    kw = data["kw"]
    names = [e[0] for e in node.expose]
    ctx.case(("hier-sweep", data["tree"], repr(sorted(kw.items()))), tags=["stream:hier-sweep"])
    real_kw = {k: (np.array([float(Fraction(z)) for z in v]) if isinstance(v, list) else float(Fraction(v))) for k, v in kw.items()}
    try:
        S = impl.solved_matrix(hier.build(node).solve(**real_kw), names)
        real = ("ok", S)
    except np.linalg.LinAlgError:
        ctx.tag("outcome:singular-raised")
        return
    except Exception as e:  # noqa
        real = ("rejected", type(e).__name__)
    ans = ctx.driver.ask({"op": "phsweep", "tree": hier.ptree_json(node),
                          "kw": [[k, [[z, "0/1"] for z in (v if isinstance(v, list) else [v])]] for k, v in kw.items()]})
    if ans.get("err") == "lengths":
        if real[0] != "rejected":
            ctx.violation("C04:hier-lengths-accepted", f"a hierarchy accepted inconsistent sweep lengths { {k: len(v) for k, v in kw.items() if isinstance(v, list)} }", data)
        else:
            ctx.tag("outcome:lengths-rejected")
        return
    if "points" not in ans:
        ctx.disagreement("C04.model.psweep", f"model: {ans}", data)
        return
    if real[0] == "rejected":
        ctx.violation(f"C04:hier-sweep-raised-{real[1]}", f"a sweep over a hierarchy with consistent lengths raised {real[1]}", data)
        return
    pts = ans["points"]
    if len(pts) != S.shape[0]:
        ctx.violation("C04:hier-sweep-length", f"sweep of a hierarchy has {S.shape[0]} points, the length rule gives {len(pts)}", data)
        return
    n = len(names)
    for k, pt in enumerate(pts):
        if "T" not in pt:
            ctx.tag("model:singular-point")
            continue
        order = [pt["pins"].index(nm) for nm in names]
        T = gen.json_mat_np([z for row in pt["T"] for z in row], n, n) if n else np.zeros((0, 0), complex)
        T = T[np.ix_(order, order)] if n else T
        if T.size and float(np.max(np.abs(T - S[k]))) > 1e-9:
            # who is right?  the scalar solve of the code at that point
            pt_kw = {kk: (float(Fraction(v[k if len(v) > 1 else 0])) if isinstance(v, list) else float(Fraction(v))) for kk, v in kw.items()}
            ref = impl.solved_matrix(hier.build(node).solve(**pt_kw), names)[0]
            if float(np.max(np.abs(ref - S[k]))) > 1e-9:
                ctx.violation("C04:hier-sweep-wrong", f"sweep over a hierarchy: point {k} differs from the scalar solve of that point by {np.max(np.abs(ref - S[k])):.3e}", data)
            else:
                ctx.disagreement("C04.model.psweep", f"end-to-end model differs from the code at sweep point {k} (the code's scalar solve agrees with its sweep)", data)
            return
    ctx.tag("model:psweep")


def run(ctx):
    rng = ctx.subrng("c04")
    facts = block_factories()
    reps = ctx.budget(5, 25)
    nmaxpts = 6 if ctx.tier == "quick" else 40
    for name, (factory, params) in facts.items():
        r = 1 if name == "FPRGaussian" else reps
        for rep in range(r):
            if ctx.time_left() < 0:
                return
            n = 2 if name == "FPRGaussian" else rng.randint(2, nmaxpts)
            check_block(ctx, rng, name, factory, params, n, force=(rep == 0))
    nsolv = ctx.budget(150, 600)
    for i in range(nsolv):
        if ctx.time_left() < 0:
            return
        pcirc, assign = rand_solver_case(rng, 5 if ctx.tier == "quick" else 7)
        replay = {"kind": "solver", "pcirc": pcirc_json(pcirc), "assign": assign_json(assign)}
        ctx.case(("solver", replay), nontrivial=cs.nontrivial(pcirc), tags=["stream:solver-sweep"] +
                 (["first-point-zero"] if any(m == "lenN" and v[0] == 0 for m, v in assign.values()) else []),
                 sample={"comps": [len(c["pins"]) for c in pcirc["comps"]], "assign": assign_json(assign)} if i < 1 else None)
        check_solver_sweep(ctx, pcirc, assign, replay)
    check_lengths(ctx, rng)
    hrng = ctx.subrng("c04-hier")
    for _ in range(ctx.budget(80, 800)):
        if ctx.time_left() < 0:
            return
        hier_sweep_stream(ctx, hrng)


def replay(ctx, data):
    if data["kind"] == "hier-sweep":
        hier_sweep_stream(ctx, None, data)
        if ctx.violations:
            return False, ctx.violations[0]["what"]
        return True, "sweep over the hierarchy equals the stack of scalar solves"
    if data["kind"] == "block":
        facts = block_factories()
        factory, params = facts[data["block"]]
        passed = {}
        cols = {}
        n = max([s for s in data["shapes"].values() if s != "scalar"] + [1])
        for k, v in data["passed"].items():
            sh = data["shapes"][k]
            passed[k] = v[0] if sh == "scalar" else np.array(v)
            cols[k] = v * n if len(v) == 1 else v
        points = [{k: cols[k][i] for k in cols} for i in range(n)]
        run_block_case(ctx, data["block"], factory, passed, points, data)
    elif data["kind"] == "solver":
        check_solver_sweep(ctx, pcirc_from_json(data["pcirc"]), assign_from_json(data["assign"]), data)
    else:
        return True, "length cases are regenerated, not replayed"
    if ctx.violations:
        return False, ctx.violations[0]["what"]
    return True, "sweep equals the stack of scalar solves"
