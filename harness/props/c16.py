"""C16 — wiring calls are validated and atomic; pin names are never confused.
Sequences mixing valid calls with every kind of invalid call; deep comparison of the solver's and the
structures' wiring state before/after each rejected call; then the circuit is completed and solved."""
from __future__ import annotations

import numpy as np

import gen
import impl
import wiring

RULE = ("random sequences of 6-14 (thorough 30) wiring calls on 3-4 components: valid add/connect plus invalid calls of "
        "every kind {first pin already connected, second pin already connected, identical connect repeated in either "
        "orientation, unknown pin name, unknown Pin object, structure not in the solver, duplicate add, constructor "
        "with a pin connected twice}; after every rejected call a deep identity-free snapshot must equal the one "
        "before; finally all free pins are raised and the circuit is solved against a numpy reference; plus name "
        "collision and renamed-pin cases; distinct = distinct call sequence; non-trivial = contains a rejected call")
TRUSTED = ["snapshot function (harness/wiring.py Real.snapshot) covers solver.structures/connections/connections_list/"
           "free_pins/pin_mapping and every structure's pin_list/conn_dict/connected_to"]
ASSUMPTIONS = []
EXPLANATION = "connect validated before any mutation (Lean: atomicity and idempotence of the wiring step function)"

INVALID = ["first-connected", "second-connected", "both-connected", "repeat", "repeat-flipped", "unknown-name", "unknown-pin",
           "foreign-structure", "duplicate-add", "put-occupied", "put-unknown-target", "put-unknown-source"]


def run_sequence(ctx, comps, ops, replay):
    L = impl.lk()
    comps = [dict(c) for c in comps]          # valid put() calls append the components they place
    spec = wiring.Spec(comps)
    real = wiring.Real(comps)
    executed = []
    snaps = []
    foreign = L.Structure(model=L.Model(pin_dic={L.Pin("fx"): 0, L.Pin("fy"): 1}, Smatrix=np.array([[0, 1], [1, 0]], complex)))
    rejected = 0

    def fail(sig, msg):
        r = dict(replay)
        r["executed"] = executed
        ctx.violation(sig, msg + f" (call {executed[-1]})", r)
        return sig

    def expect_reject(label, fn):
        nonlocal rejected
        before = real.snapshot()
        try:
            fn()
        except Exception as e:  # noqa
            after = real.snapshot()
            rejected += 1
            if before != after:
                diff = [k for k in before if before[k] != after[k]]
                return fail(f"C16:nonatomic:{label}", f"rejected call ({type(e).__name__}) changed {diff}")
            return None
        return fail(f"C16:accepted:{label}", "invalid call was accepted")

    def expect_noop(label, fn):
        before = real.snapshot()
        try:
            fn()
        except Exception as e:  # noqa
            return fail(f"C16:repeat-raised:{label}", f"repeating an identical connect raised {type(e).__name__}")
        if real.snapshot() != before:
            return fail(f"C16:repeat-changed:{label}", "repeating an identical connect changed the state")
        return None

    for op in ops:
        k = op[0]
        r = None
        try:
            if k == "add":
                c = op[1]
                if c in spec.present:
                    continue
                executed.append(op)
                real.sol.add_structure(real.sts[c])
                spec.add(c)
            elif k == "connect":
                a, i, b, j = op[1:5]
                if a == b or a not in spec.present or b not in spec.present:
                    continue
                p, q = comps[a]["pins"][i % len(comps[a]["pins"])], comps[b]["pins"][j % len(comps[b]["pins"])]
                free = spec.free()
                if (a, p) not in free or (b, q) not in free:
                    continue
                executed.append(("connect", a, p, b, q))
                if op[-1] == "pinobj" if len(op) > 5 else False:
                    real.sol.connect(real.sts[a], L.Pin(p), real.sts[b], L.Pin(q))
                else:
                    real.sol.connect(real.sts[a], p, real.sts[b], q)
                spec.connect(a, p, b, q)
            elif k == "put":
                # a valid put(): a fresh two-port (sometimes wrapped in a sub-solver) placed onto a free pin of a present structure -
                # the accepted branch of the call whose rejected branches are among the invalid kinds
                c, i = op[1], op[2]
                if c not in spec.present or not comps[c]["pins"] or len(comps) >= 8:
                    continue
                p = comps[c]["pins"][i % len(comps[c]["pins"])]
                if (c, p) not in spec.free() or (c, p) in spec.mapping.values():
                    continue
                newc = len(comps)
                import random as _random
                S2 = gen.contractive(_random.Random(newc * 7919 + i * 31 + len(executed)), 2)
                un, vn = f"u{newc}", f"v{newc}"
                comps.append({"pins": [un, vn], "idx": [0, 1], "S": S2})
                m = L.Model(pin_dic={L.Pin(un): 0, L.Pin(vn): 1}, Smatrix=gen.mat_np(S2, 2, 2))
                executed.append(("put", newc, un, c, p))
                with real.sol:
                    st = m.put(un if i % 2 else L.Pin(un), (real.sts[c], p if i % 4 < 2 else L.Pin(p)))
                real.sts.append(st)
                spec.pins[newc] = [un, vn]
                spec.add(newc)
                spec.connect(newc, un, c, p)
            elif k == "setparam":
                executed.append(op)
                real.sol.set_param("pq", op[1])
            elif k == "invalid":
                kind, x, y, z = op[1], op[2], op[3], op[4]
                links = spec.links
                free = spec.free()
                if kind in ("first-connected", "second-connected"):
                    if not links or not free:
                        continue
                    (a, p, b, q) = links[x % len(links)]
                    if y % 2:
                        a, p = b, q
                    cands = [f for f in free if f[0] != a]
                    if not cands:
                        continue
                    (c, r_) = cands[z % len(cands)]
                    executed.append(("invalid", kind, a, p, c, r_))
                    if kind == "first-connected":
                        r = expect_reject(kind, lambda: real.sol.connect(real.sts[a], p, real.sts[c], r_))
                    else:
                        r = expect_reject(kind, lambda: real.sol.connect(real.sts[c], r_, real.sts[a], p))
                elif kind == "both-connected":
                    # both pins already take part in *other* connections (either may be the first- or the second-named end of its link)
                    if len(links) < 2:
                        continue
                    l1, l2 = links[x % len(links)], links[y % len(links)]
                    if l1 == l2:
                        continue
                    e1 = (l1[0], l1[1]) if z % 2 else (l1[2], l1[3])
                    e2 = (l2[0], l2[1]) if (z // 2) % 2 else (l2[2], l2[3])
                    if e1[0] == e2[0] or e1 == e2:
                        continue
                    executed.append(("invalid", kind, e1[0], e1[1], e2[0], e2[1]))
                    r = expect_reject(kind, lambda: real.sol.connect(real.sts[e1[0]], e1[1], real.sts[e2[0]], e2[1]))
                elif kind in ("repeat", "repeat-flipped"):
                    if not links:
                        continue
                    (a, p, b, q) = links[x % len(links)]
                    executed.append(("invalid", kind, a, p, b, q))
                    if kind == "repeat":
                        r = expect_noop(kind, lambda: real.sol.connect(real.sts[a], p, real.sts[b], q))
                    else:
                        r = expect_noop(kind, lambda: real.sol.connect(real.sts[b], q, real.sts[a], p))
                elif kind in ("unknown-name", "unknown-pin"):
                    if len(free) < 1 or len(spec.present) < 2:
                        continue
                    (a, p) = free[x % len(free)]
                    others = [c for c in spec.present if c != a]
                    b = others[y % len(others)]
                    executed.append(("invalid", kind, a, p, b))
                    first = z % 2 == 0
                    if kind == "unknown-name":
                        bad = "nosuchpin"
                    else:
                        bad = L.Pin("nosuchpin")
                    if first:
                        r = expect_reject(kind, lambda: real.sol.connect(real.sts[b], bad, real.sts[a], p))
                    else:
                        r = expect_reject(kind, lambda: real.sol.connect(real.sts[a], p, real.sts[b], bad))
                elif kind == "foreign-structure":
                    if not free:
                        continue
                    (a, p) = free[x % len(free)]
                    executed.append(("invalid", kind, a, p))
                    if y % 2:
                        r = expect_reject(kind, lambda: real.sol.connect(real.sts[a], p, foreign, "fx"))
                    else:
                        r = expect_reject(kind, lambda: real.sol.connect(foreign, "fx", real.sts[a], p))
                elif kind.startswith("put-"):
                    # put() = add + connect in one call: a put that is rejected (target pin connected already / unknown, source pin
                    # unknown) must leave nothing behind; the placed object is a model or a sub-solver
                    def new_obj():
                        m = L.Model(pin_dic={L.Pin("u"): 0, L.Pin("v"): 1}, Smatrix=np.array([[0, 1], [1, 0]], complex))
                        if y % 2 == 0:
                            return m
                        sub = L.Solver()
                        with sub:
                            m.put()
                            L.raise_pins()
                        return sub
                    if kind == "put-occupied":
                        if not links:
                            continue
                        (a, p, b, q) = links[x % len(links)]
                        if z % 2:
                            a, p = b, q
                        src, tgt = "u", (real.sts[a], p if z % 4 < 2 else L.Pin(p))
                    elif kind == "put-unknown-target":
                        if not spec.present:
                            continue
                        a = spec.present[x % len(spec.present)]
                        src, tgt = "v", (real.sts[a], "nosuchpin" if z % 2 else L.Pin("nosuchpin"))
                    else:
                        if not free:
                            continue
                        (a, p) = free[x % len(free)]
                        src, tgt = ("nosuchpin" if z % 2 else L.Pin("nosuchpin")), (real.sts[a], p)
                    executed.append(("invalid", kind, a, src if isinstance(src, str) else src.name, tgt[1] if isinstance(tgt[1], str) else tgt[1].name))
                    obj = new_obj()

                    def do_put():
                        with real.sol:
                            obj.put(src, tgt)
                    r = expect_reject(kind, do_put)
                elif kind == "duplicate-add":
                    if not spec.present:
                        continue
                    c = spec.present[x % len(spec.present)]
                    executed.append(("invalid", kind, c))
                    r = expect_reject(kind, lambda: real.sol.add_structure(real.sts[c]))
        except Exception as e:  # noqa
            return fail(f"C16:valid-call-raised-{type(e).__name__}", f"valid call raised {type(e).__name__}: {str(e)[:60]}"), rejected
        if r:
            return r, rejected
        while len(snaps) < len(executed):
            snaps.append(None)
        if executed:
            snaps[len(executed) - 1] = real.snapshot()
        bad = wiring.consistency(real, spec)
        if bad:
            return fail(f"C16:inconsistent:{bad[0][0]}", bad[0][1]), rejected
        # a pin takes part in at most one connection
        cl = [(real.sid(s), p.name) for (s, p) in real.sol.connections_list]
        if len(cl) != len(set(cl)):
            return fail("C16:pin-connected-twice", "a pin occurs in two connections"), rejected
    if replay:
        try:
            wiring.model_compare(ctx, comps, executed, snaps, "C16.model.wiring", dict(replay, executed=executed))
        except Exception as e:  # noqa
            ctx.disagreement("C16.model.wiring", f"model comparison failed: {type(e).__name__}: {e}", replay)
    # complete the circuit and solve
    if spec.present:
        executed.append(("complete",))
        try:
            real.sol.maps_all_pins()
            spec.raise_all()
            real.last_solve = None
            ok, msg = wiring.solve_and_compare(real, spec)
            if ok and real.last_solve is not None and replay:
                try:
                    wiring.model_solve_compare(ctx, comps, executed, [(len(executed) - 1,) + real.last_solve], "C16.model.wiring-solve", dict(replay, executed=executed))
                except Exception as e:  # noqa
                    ctx.disagreement("C16.model.wiring-solve", f"model comparison failed: {type(e).__name__}: {e}", replay)
        except Exception as e:  # noqa
            ok, msg = False, f"completing the circuit raised {type(e).__name__}: {str(e)[:60]}"
        if not ok:
            return fail("C16:not-completable", msg), rejected
    return None, rejected


def gen_ops(rng, ncomp, n):
    ops = [("add", c) for c in range(ncomp) if rng.random() < 0.8]
    for _ in range(n):
        r = rng.random()
        if r < 0.08:
            ops.append(("setparam", rng.randint(1, 9) / 10))
        elif r < 0.16:
            ops.append(("add", rng.randrange(ncomp)))
        elif r < 0.24:
            ops.append(("put", rng.randrange(ncomp), rng.randrange(8)))
        elif r < 0.55:
            op = ("connect", rng.randrange(ncomp), rng.randrange(3), rng.randrange(ncomp), rng.randrange(3))
            if rng.random() < 0.3:
                op = op + ("pinobj",)
            ops.append(op)
        else:
            ops.append(("invalid", rng.choice(INVALID), rng.randrange(100), rng.randrange(100), rng.randrange(100)))
    return ops


def name_cases(ctx):
    """two distinct pins whose printable names coincide are rejected wherever a name is resolved; renamed pins"""
    L = impl.lk()
    # 1. model construction
    ctx.case("name-collision-model", tags=["stream:names"])
    try:
        L.Model(pin_dic={L.Pin("a", "b"): 0, L.Pin("a_b"): 1})
        ctx.violation("C16:name-collision-model", "Model with pins Pin('a','b') and Pin('a_b') (same printable name) accepted", {"kind": "names", "case": 1})
    except Exception:
        pass
    # 2. Structure.pin on a structure whose pin list holds colliding names
    ctx.case("name-collision-structure", tags=["stream:names"])
    try:
        st = L.Structure(pin_list=[L.Pin("a", "b"), L.Pin("a_b")])
        st.pin["a_b"]
        ctx.violation("C16:name-collision-structure", "Structure.pin resolved an ambiguous name", {"kind": "names", "case": 2})
    except Exception:
        pass
    # 3. maps_all_pins with two free pins of equal name
    ctx.case("name-collision-raise", tags=["stream:names"])
    try:
        s = L.Solver()
        m1 = L.Model(pin_dic={L.Pin("x"): 0})
        m2 = L.Model(pin_dic={L.Pin("x"): 0})
        s.add_structure(L.Structure(model=m1))
        s.add_structure(L.Structure(model=m2))
        s.maps_all_pins()
        ctx.violation("C16:name-collision-raise", "maps_all_pins accepted two free pins named alike", {"kind": "names", "case": 3})
    except Exception:
        pass
    # 3b. a name the user mapped by hand equals the own name of another, still unmapped free pin: raising all pins must be
    #     rejected, the hand-made mapping must keep pointing at its pin, and the circuit can still be completed and solved
    for order in (0, 1):
        ctx.case(("name-collision-raise-mapped", order), tags=["stream:names"])
        rep = {"kind": "names", "case": "3b", "order": order}
        try:
            s = L.Solver()
            arms = [L.Structure(model=L.Model(pin_dic={L.Pin("a0"): 0, L.Pin("b0"): 1}, Smatrix=np.array([[0, t], [t, 0]], complex))) for t in (0.5, 0.25j)]
            split = L.Structure(model=L.Model(pin_dic={L.Pin("in"): 0, L.Pin("o1"): 1, L.Pin("o2"): 2},
                                              Smatrix=np.array([[0, 1, 1], [1, 0, 0], [1, 0, 0]], complex) / np.sqrt(2)))
            for st in ([split] + arms if order == 0 else arms[::-1] + [split]):
                s.add_structure(st)
            s.connect(split, L.Pin("o1"), arms[0], L.Pin("a0"))
            s.connect(split, L.Pin("o2"), arms[1], L.Pin("a0"))
            s.map_pins({L.Pin("b0"): (arms[0], L.Pin("b0"))})
            raised = False
            try:
                s.maps_all_pins()
            except Exception:
                raised = True
            if not raised:
                ctx.violation("C16:name-collision-raise-mapped", "maps_all_pins accepted a free pin whose name equals a name the user had mapped onto another pin", rep)
                continue
            if s.pin_mapping.get(L.Pin("b0")) != (arms[0], L.Pin("b0")):
                ctx.violation("C16:name-collision-raise-mapped", "after the rejected maps_all_pins the hand-mapped name points at another pin", rep)
                continue
            s.map_pins({L.Pin("b1"): (arms[1], L.Pin("b0"))})
            s.maps_all_pins()
            mod = s.solve()
            a1, a2 = mod.get_A("in", "b0"), mod.get_A("in", "b1")
            if abs(a1 - 0.5 / np.sqrt(2)) > 1e-12 or abs(a2 - 0.25j / np.sqrt(2)) > 1e-12:
                ctx.violation("C16:name-collision-raise-mapped", f"after completing the circuit the named pins report {a1:.4f}, {a2:.4f} (arms confused)", rep)
        except Exception as e:  # noqa
            ctx.violation("C16:name-collision-raise-mapped", f"completing the circuit after the rejected call raised {type(e).__name__}: {str(e)[:60]}", rep)
    # 3c. connections given to the constructor: a set that connects a pin twice, or a structure to itself, is rejected and leaves
    #     the structures as they were - the same structures can then be wired correctly and solved
    for variant in ("pin-twice", "self", "pin-twice-late"):
        ctx.case(("ctor-rejection", variant), tags=["stream:constructor"])
        rep = {"kind": "names", "case": "3c", "variant": variant}
        try:
            P = L.Pin
            sts = [L.Structure(model=L.Model(pin_dic={P("p"): 0, P("q"): 1}, Smatrix=np.array([[0, t], [t, 0]], complex))) for t in (0.5, 0.25, 0.125)]
            a, b, c = sts
            before = [(dict(x.conn_dict), list(x.connected_to)) for x in sts]
            if variant == "pin-twice":
                bad = {(a, P("q")): (b, P("p")), (c, P("q")): (b, P("p"))}
            elif variant == "pin-twice-late":
                bad = {(a, P("q")): (b, P("p")), (b, P("q")): (c, P("p")), (c, P("q")): (a, P("q"))}
            else:
                bad = {(a, P("q")): (b, P("p")), (c, P("p")): (c, P("q"))}
            raised = False
            try:
                L.Solver(structures=list(sts), connections=bad)
            except Exception:
                raised = True
            if not raised:
                ctx.violation("C16:constructor-accepts", f"Solver(connections=...) accepted an invalid set of connections ({variant})", rep)
                continue
            after = [(dict(x.conn_dict), list(x.connected_to)) for x in sts]
            if after != before:
                ctx.violation("C16:nonatomic:constructor", f"a rejected Solver(connections=...) ({variant}) left connection entries on the structures", rep)
                continue
            s = L.Solver(structures=list(sts), connections={(a, P("q")): (b, P("p")), (b, P("q")): (c, P("p"))})
            s.map_pins({P("in"): (a, P("p")), P("out"): (c, P("q"))})
            z = s.solve().get_A("in", "out")
            if abs(z - 0.5 * 0.25 * 0.125) > 1e-12:
                ctx.violation("C16:nonatomic:constructor", f"after a rejected constructor the same structures wired correctly give {z}", rep)
        except Exception as e:  # noqa
            ctx.violation("C16:nonatomic:constructor", f"after a rejected constructor ({variant}) wiring the same structures correctly raised {type(e).__name__}: {str(e)[:60]}", rep)
    # 4. renamed pins are addressable by the new names (and only by them)
    for variant in ("put", "get_T", "connect"):
        ctx.case(("renamed", variant), tags=["stream:renamed-pins"])
        rep = {"kind": "renamed", "variant": variant}
        try:
            m = L.Model(pin_dic={L.Pin("a0"): 0, L.Pin("b0"): 1}, Smatrix=np.array([[0, 0.5], [0.5, 0]], complex))
            m.pin_mapping({L.Pin("a0"): L.Pin("in"), L.Pin("b0"): L.Pin("out")})
            if variant == "put":
                s = L.Solver()
                with s:
                    other = L.Structure(model=L.Model(pin_dic={L.Pin("p"): 0, L.Pin("q"): 1}, Smatrix=np.array([[0, 1], [1, 0]], complex)))
                    s.add_structure(other)
                    st = m.put("in", (other, "q"))
                    old_ok = True
                    try:
                        m.put("a0", (other, "p"))
                    except Exception:
                        old_ok = False
                if old_ok:
                    ctx.violation("C16:pin-mapping-table", "a renamed model is still addressable by its old pin name in put()", rep)
            elif variant == "get_T":
                sm = m.solve()
                t = sm.get_T("in", "out")
                if abs(t - 0.25) > 1e-12:
                    ctx.violation("C16:pin-mapping-table", "get_T by the new names gives a wrong value", rep)
            else:
                s = L.Solver()
                st = L.Structure(model=m)
                other = L.Structure(model=L.Model(pin_dic={L.Pin("p"): 0, L.Pin("q"): 1}, Smatrix=np.array([[0, 1], [1, 0]], complex)))
                s.add_structure(st)
                s.add_structure(other)
                s.connect(st, "out", other, "p")
        except Exception as e:  # noqa
            ctx.violation("C16:pin-mapping-table", f"a model whose pins were renamed is not addressable by the new names in {variant} ({type(e).__name__})", rep)
    # 5. constructor-time duplicate check
    ctx.case("constructor-duplicate", tags=["stream:constructor"])
    try:
        a = L.Structure(model=L.Model(pin_dic={L.Pin("p"): 0, L.Pin("q"): 1}))
        b = L.Structure(model=L.Model(pin_dic={L.Pin("p"): 0, L.Pin("q"): 1}))
        c = L.Structure(model=L.Model(pin_dic={L.Pin("p"): 0, L.Pin("q"): 1}))
        L.Solver(structures=[a, b, c], connections={(a, L.Pin("p")): (b, L.Pin("p")), (c, L.Pin("p")): (b, L.Pin("p"))})
        ctx.violation("C16:constructor-duplicate", "constructor accepted a pin connected twice", {"kind": "constructor"})
    except Exception:
        pass


def names_stream(ctx, rng, n):
    """random pin sets (base and mode names from a small alphabet, so that printable names collide by accident:
    Pin('a','b') vs Pin('a_b')) and random renamings (fresh names, swaps, chains, collisions with pins that stay);
    oracle = the simultaneous renaming; colliding printable names must be rejected with the model left as it was"""
    L = impl.lk()
    bases = ["a", "b", "a_b", "c", "a_b_c", "b_c"]
    modes = [None, None, "b", "c", "b_c", "TE"]

    def rpin():
        return (rng.choice(bases), rng.choice(modes))
    name = lambda t: t[0] if t[1] is None else f"{t[0]}_{t[1]}"
    for i in range(n):
        k = rng.randint(1, 5)
        pins = []
        while len(pins) < k:
            t = rpin()
            if t not in pins:
                pins.append(t)
        # renaming: keys among the pins (plus sometimes a pin that is not there); targets: fresh / another pin / swap
        rho = {}
        kind = rng.choice(["none", "fresh", "swap", "chain", "mixed", "mixed"])
        if kind == "fresh":
            for t in rng.sample(pins, rng.randint(1, len(pins))):
                rho[t] = (t[0] + "x", t[1])
        elif kind == "swap" and len(pins) >= 2:
            x, y = rng.sample(pins, 2)
            rho[x], rho[y] = y, x
        elif kind == "chain" and len(pins) >= 2:
            seq = rng.sample(pins, rng.randint(2, len(pins)))
            for a, b in zip(seq, seq[1:]):
                rho[a] = b
            rho[seq[-1]] = (rng.choice(["z", "a"]), None)
        elif kind == "mixed":
            for t in rng.sample(pins, rng.randint(1, len(pins))):
                rho[t] = rng.choice(pins + [rpin(), rpin()])
            if rng.random() < 0.3:
                rho[rpin()] = rpin()
        rep = {"kind": "names-random", "pins": [list(t) for t in pins], "rename": [[list(a), list(b)] for a, b in rho.items()]}
        new = [rho.get(t, t) for t in pins]
        collide0 = len({name(t) for t in pins}) != len(pins)
        collide1 = len({name(t) for t in new}) != len(new)
        ctx.case(rep, nontrivial=bool(rho), tags=["stream:names-random", f"rename:{kind}", "collision:before" if collide0 else ("collision:after" if collide1 else "collision:none")])
        mk = lambda t: L.Pin(t[0], t[1])
        idx = list(range(k))
        rng.shuffle(idx)
        # --- implementation
        try:
            m = L.Model(pin_dic={mk(t): j for t, j in zip(pins, idx)}, Smatrix=np.arange(k * k).reshape(k, k).astype(complex))
            built = True
        except ValueError:
            built = False
        except Exception as e:  # noqa
            ctx.violation(f"C16:names-raised-{type(e).__name__}", f"Model construction raised {type(e).__name__}", rep)
            continue
        if built == collide0:
            ctx.violation("C16:name-collision-model", f"Model with pins {pins}: printable names {'collide but it was accepted' if collide0 else 'are distinct but it was rejected'}", rep)
            continue
        ans = ctx.driver.ask({"op": "names", "pins": rep["pins"], "rename": rep["rename"], "resolve": sorted({name(t) for t in new} | {name(t) for t in pins})})
        if ("model" not in ans) or ((ans["model"] == "ValueError") != collide0) or ((ans["renamed"] == "ValueError") != collide1 and not collide0):
            ctx.disagreement("C16.model.names", f"Lean name table disagrees with the reference: {str(ans)[:120]}", rep)
        if not built:
            continue
        # --- mode expansion of a mode-free model: the expanded pins must not print alike either
        if all(t[1] is None for t in pins) and rng.random() < 0.5:
            mlist = [rng.choice(["c", "b_c", "TE", "b"]) for _ in range(rng.randint(1, 3))]
            erep = dict(rep, kind="names-expand", modes=mlist)
            ctx.case(erep, tags=["stream:names-expand", "modes:duplicate" if len(set(mlist)) != len(mlist) else "modes:distinct"])
            exp_names = [f"{t[0]}_{mm}" for t in pins for mm in mlist]
            clash = len(set(exp_names)) != len(exp_names)
            me = L.Model(pin_dic={mk(t): j for t, j in zip(pins, idx)}, Smatrix=np.arange(k * k).reshape(k, k).astype(complex))
            bef = ({(p.basename, p.mode_name): j for p, j in me.pin_dic.items()}, me.N)
            try:
                me.expand_mode(list(mlist))
                eok = True
            except (ValueError, Exception) as e:  # noqa
                eok = False
                if not isinstance(e, ValueError) and clash:
                    ctx.violation(f"C16:names-raised-{type(e).__name__}", f"expand_mode({mlist}) raised {type(e).__name__} instead of ValueError", erep)
            aft = ({(p.basename, p.mode_name): j for p, j in me.pin_dic.items()}, me.N)
            if clash and eok:
                ctx.violation("C16:expand-collision-accepted", f"expand_mode({mlist}) of pins {[t[0] for t in pins]} makes two pins print alike (or repeats a mode) "
                              f"but was accepted: {len(aft[0])} pins for a {aft[1]}-port matrix, name table {sorted(me.pin)}", erep)
            elif clash and aft != bef:
                ctx.violation("C16:expand-nonatomic", "a rejected expand_mode changed the model", erep)
            elif not clash:
                want_e = {(t[0], mm): i * k + j for t, j in zip(pins, idx) for i, mm in enumerate(mlist)}
                if not eok or aft[0] != want_e or set(me.pin) != set(exp_names):
                    ctx.violation("C16:expand-names", f"expand_mode({mlist}) of {pins}: pins {aft[0]}, expected {want_e}", erep)
        before = {(p.basename, p.mode_name): j for p, j in m.pin_dic.items()}
        # objects that were derived from the model before the renaming keep their own names
        shared_src = {mk(t): j for t, j in zip(pins, idx)}
        twin_a = L.Model(pin_dic=shared_src, Smatrix=np.arange(k * k).reshape(k, k).astype(complex))
        twin_b = L.Model(pin_dic=shared_src, Smatrix=np.arange(k * k).reshape(k, k).astype(complex))
        try:
            solved_before = m.solve()
        except Exception:
            solved_before = None
        try:
            m.pin_mapping({mk(a): mk(b) for a, b in rho.items()})
            ok = True
        except ValueError:
            ok = False
        except Exception as e:  # noqa
            ctx.violation(f"C16:names-raised-{type(e).__name__}", f"pin_mapping raised {type(e).__name__}: {str(e)[:60]}", rep)
            continue
        after = {(p.basename, p.mode_name): j for p, j in m.pin_dic.items()}
        if collide1:
            if ok:
                ctx.violation("C16:rename-collision-accepted", f"pin_mapping {rho} on {pins} makes two pins print alike (or merges two pins) but was accepted; pins now {list(after)}", rep)
            elif after != before or set(m.pin) != {name(t) for t in pins}:
                ctx.violation("C16:rename-nonatomic", "a rejected pin_mapping changed the model", rep)
            continue
        want = {rho.get(t, t): j for t, j in zip(pins, idx)}
        if not ok:
            ctx.violation("C16:rename-rejected", f"valid renaming {rho} of {pins} was rejected", rep)
            continue
        if after != want:
            ctx.violation("C16:rename-not-simultaneous", f"pin_mapping {rho} on {dict(zip(pins, idx))} gives {after}, the renaming gives {want}", rep)
            continue
        if rho and any(rho.get(t, t) != t for t in pins):
            if solved_before is not None and {(p.basename, p.mode_name): j for p, j in solved_before.pin_dic.items()} != before:
                ctx.violation("C16:rename-leaks", "renaming a model also renamed the pins of a result solved from it earlier", rep)
                continue
            try:
                twin_a.pin_mapping({mk(a): mk(b) for a, b in rho.items()})
            except Exception:
                pass
            if {(p.basename, p.mode_name): j for p, j in twin_b.pin_dic.items()} != before or set(twin_b.pin) != {name(t) for t in pins}:
                ctx.violation("C16:rename-leaks", "renaming one model renamed the pins of another model built from the same pin dictionary", rep)
                continue
        if {n_: (p.basename, p.mode_name) for n_, p in m.pin.items()} != {name(t): t for t in want}:
            ctx.violation("C16:pin-mapping-table", "the name table of a renamed model does not list exactly the new names", rep)
            continue
        # Lean model: resolved names
        if "resolved" in ans and ans["renamed"] != "ValueError":
            got = {nm: (tuple(r) if isinstance(r, list) else r) for nm, r in zip(sorted({name(t) for t in new} | {name(t) for t in pins}), ans["resolved"])}
            for nm, r in got.items():
                exp = m.pin.get(nm)
                expt = (exp.basename, exp.mode_name) if exp is not None else "KeyError"
                if r != expt:
                    ctx.disagreement("C16.model.names", f"resolve({nm}) = {r} in the model, {expt} in the implementation", rep)
                    break


def run(ctx):
    rng = ctx.subrng("c16")
    names_stream(ctx, ctx.subrng("c16-names"), ctx.budget(150, 2000))
    n = ctx.budget(300, 5000)
    maxops = 14 if ctx.tier == "quick" else 30
    import props.c07 as c07
    for i in range(n):
        if ctx.time_left() < 0:
            break
        ncomp = rng.randint(3, 4)
        comps = c07.make_comps(rng, ncomp)
        ops = gen_ops(rng, ncomp, rng.randint(6, maxops))
        replay = {"kind": "sequence", "comps": c07.comps_json(comps), "ops": [list(o) for o in ops]}
        before = len(ctx.violations)
        sig, rejected = run_sequence(ctx, comps, ops, replay)
        ctx.case(replay["ops"], nontrivial=rejected > 0, tags=[f"rejected:{min(rejected, 5)}"], sample=replay["ops"] if i < 1 else None)
        if sig and len(ctx.violations) > before:
            # shrink: drop ops while the same signature is reported
            cur = list(ops)
            j = len(cur) - 1
            while j >= 0:
                cand = cur[:j] + cur[j + 1:]
                sub = type(ctx)(ctx.pid, ctx.tier, ctx.seed)
                try:
                    got, _ = run_sequence(sub, comps, cand, {})
                except Exception:
                    got = None
                if got == sig:
                    cur = cand
                j -= 1
            ctx.violations[-1]["replay"] = {"kind": "sequence", "comps": c07.comps_json(comps), "ops": [list(o) for o in cur]}
    name_cases(ctx)


def replay_names(ctx, data):
    import random
    # re-run the stream deterministically until the same case appears is not possible; rebuild the case directly
    L = impl.lk()
    pins = [tuple(t) for t in data["pins"]]
    rho = {tuple(a): tuple(b) for a, b in data["rename"]}
    name = lambda t: t[0] if t[1] is None else f"{t[0]}_{t[1]}"
    mk = lambda t: L.Pin(t[0], t[1])
    new = [rho.get(t, t) for t in pins]
    collide0 = len({name(t) for t in pins}) != len(pins)
    collide1 = len({name(t) for t in new}) != len(new)
    try:
        m = L.Model(pin_dic={mk(t): j for j, t in enumerate(pins)})
    except ValueError:
        return (collide0, "colliding names rejected at construction" if collide0 else "distinct names rejected at construction")
    if collide0:
        return False, "colliding printable names accepted at construction"
    before = {(p.basename, p.mode_name): j for p, j in m.pin_dic.items()}
    src = {mk(t): j for j, t in enumerate(pins)}
    twin_a, twin_b = L.Model(pin_dic=src), L.Model(pin_dic=src)
    solved_before = m.solve()
    try:
        m.pin_mapping({mk(a): mk(b) for a, b in rho.items()})
        ok = True
    except ValueError:
        ok = False
    after = {(p.basename, p.mode_name): j for p, j in m.pin_dic.items()}
    if ok and not collide1:
        if {(p.basename, p.mode_name): j for p, j in solved_before.pin_dic.items()} != before:
            return False, "renaming a model also renamed the pins of a result solved from it earlier"
        try:
            twin_a.pin_mapping({mk(a): mk(b) for a, b in rho.items()})
        except Exception:
            pass
        if {(p.basename, p.mode_name): j for p, j in twin_b.pin_dic.items()} != before:
            return False, "renaming one model renamed the pins of another model built from the same pin dictionary"
    if collide1:
        return (not ok and after == before), ("colliding renaming rejected, model unchanged" if (not ok and after == before) else f"colliding renaming gives {after}")
    want = {rho.get(t, t): j for j, t in enumerate(pins)}
    return (ok and after == want), (f"renaming gives {after}, expected {want}")


def replay_expand(ctx, data):
    L = impl.lk()
    pins = [tuple(t) for t in data["pins"]]
    mlist = data["modes"]
    k = len(pins)
    exp_names = [f"{t[0]}_{mm}" for t in pins for mm in mlist]
    clash = len(set(exp_names)) != len(exp_names)
    me = L.Model(pin_dic={L.Pin(t[0], t[1]): j for j, t in enumerate(pins)}, Smatrix=np.arange(k * k).reshape(k, k).astype(complex))
    bef = ({(p.basename, p.mode_name): j for p, j in me.pin_dic.items()}, me.N)
    try:
        me.expand_mode(list(mlist))
        eok = True
    except Exception:
        eok = False
    aft = ({(p.basename, p.mode_name): j for p, j in me.pin_dic.items()}, me.N)
    if clash:
        return (not eok and aft == bef), ("colliding expansion rejected, model unchanged" if (not eok and aft == bef) else f"colliding expansion accepted or model changed: {len(aft[0])} pins, N={aft[1]}")
    want = {(t[0], mm): i * k + j for j, t in enumerate(pins) for i, mm in enumerate(mlist)}
    return (eok and aft[0] == want), f"expansion gives {aft[0]}"


def replay(ctx, data):
    if isinstance(data, dict) and data.get("kind") == "names-random":
        return replay_names(ctx, data)
    if isinstance(data, dict) and data.get("kind") == "names-expand":
        return replay_expand(ctx, data)
    import props.c07 as c07
    if data.get("kind") == "sequence":
        comps = c07.comps_from_json(data["comps"])
        run_sequence(ctx, comps, [tuple(o) for o in data["ops"]], data)
    else:
        name_cases(ctx)
    if ctx.violations:
        return False, ctx.violations[0]["what"]
    return True, "rejected calls left the circuit unchanged; circuit completed and solved correctly"
