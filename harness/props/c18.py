"""C18 — star-product kernel.  Tie: (T) Generated/Kernel.lean regenerated from scattering.py;
(H) real S_matrix.add / int_complete vs the exact executable model; oracle: the pair equations
evaluated on the implementation's own output."""
from __future__ import annotations

import numpy as np

import gen
import impl
from common import frac_str

RULE = ("random dimension triples (N,K,M) in 0..4 incl. zeros, dyadic complex blocks (contractive so the inner "
        "system is well conditioned), batch sizes 1-5, plus streams with mismatched intermediate dimensions and "
        "exactly singular inner systems, and `structured` operands whose blocks are independently zero / identity / 0-1 "
        "permutation-like / sparse rank-deficient / random (through-connections, isolators, mirrors; square dimensions favoured), `oneway` pairs whose coupling blocks multiply to zero in one order only; distinct = distinct (dims, entries); non-trivial = K >= 1 and at least one "
        "non-zero coupling block")
TRUSTED = ["translator harness/translate/kernel.py (subset: matmul/@/dot, linalg.inv/solve, identity, +, -, block fields)",
           "numpy matmul/inv slice-wise broadcasting along the sweep axis (assumption A-numpy-batch, exercised here)"]
ASSUMPTIONS = ["A-numpy-batch: numpy applies matmul/inv independently per leading index",
               "inner system 1 - A.S12*B.S21 invertible (else the code raises LinAlgError; checked as outcome class)"]
EXPLANATION = "theorems over any field for the regenerated kernel; executable twin compared with numpy"

TOL = 1e-9


def rand_smat(rng, N, M, mag=0.6):
    return {"N": N, "M": M,
            "S11": gen.cmat(rng, M, N, mag=mag), "S22": gen.cmat(rng, N, M, mag=mag),
            "S12": gen.cmat(rng, M, M, mag=mag), "S21": gen.cmat(rng, N, N, mag=mag)}


def structured_smat(rng, N, M):
    """operand whose blocks are, independently, zero / (rectangular) identity / a permutation-like 0-1 matrix / random:
    through-connections, isolators, perfect mirrors, crossings and everything in between"""
    from fractions import Fraction

    def block(r, c):
        k = rng.choice(["zero", "eye", "eye", "perm", "partial", "partial", "rand"])
        if k == "rand":
            return gen.cmat(rng, r, c, mag=0.6)
        m = [[gen.CZ for _ in range(c)] for _ in range(r)]
        if k == "eye":
            for i in range(min(r, c)):
                m[i][i] = (Fraction(1), Fraction(0))
        if k == "partial":
            # rank-deficient sparse block: a few non-zero entries (one-way paths; products that vanish in one order only)
            for i in range(r):
                for j in range(c):
                    if rng.random() < 0.3:
                        m[i][j] = (Fraction(1), Fraction(0)) if rng.random() < 0.5 else gen.cdyadic(rng, pzero=0.0)
        if k == "perm" and r and c:
            cols = rng.sample(range(c), min(r, c))
            for i, j in zip(rng.sample(range(r), min(r, c)), cols):
                m[i][j] = (Fraction(1), Fraction(0))
        return m
    return {"N": N, "M": M, "S11": block(M, N), "S22": block(N, M), "S12": block(M, M), "S21": block(N, N)}


def smat_json(A):
    return {"N": A["N"], "M": A["M"], "S11": gen.mat_json(A["S11"]), "S22": gen.mat_json(A["S22"]),
            "S12": gen.mat_json(A["S12"]), "S21": gen.mat_json(A["S21"])}


def smat_from_json(j):
    from common import parse_cfrac
    N, M = j["N"], j["M"]

    def un(flat, r, c):
        f = [parse_cfrac(z) for z in flat]
        return [f[i * c:(i + 1) * c] for i in range(r)]
    return {"N": N, "M": M, "S11": un(j["S11"], M, N), "S22": un(j["S22"], N, M),
            "S12": un(j["S12"], M, M), "S21": un(j["S21"], N, N)}


def impl_smat(batch):
    """build a real S_matrix (with sweep axis) from a list of model-side SMats of equal dims"""
    L = impl.lk()
    N, M = batch[0]["N"], batch[0]["M"]
    ns = len(batch)
    S = L.S_matrix(N, M, ns=ns)
    for k, A in enumerate(batch):
        S.S11[k] = gen.mat_np(A["S11"], M, N)
        S.S22[k] = gen.mat_np(A["S22"], N, M)
        S.S12[k] = gen.mat_np(A["S12"], M, M)
        S.S21[k] = gen.mat_np(A["S21"], N, N)
    return S


def impl_smat_2d(A):
    L = impl.lk()
    S = L.S_matrix(A["N"], A["M"])
    S.S11 = gen.mat_np(A["S11"], A["M"], A["N"])
    S.S22 = gen.mat_np(A["S22"], A["N"], A["M"])
    S.S12 = gen.mat_np(A["S12"], A["M"], A["M"])
    S.S21 = gen.mat_np(A["S21"], A["N"], A["N"])
    return S


def oracle_pair(As, Bs, C, waves, us, ds):
    """the pair equations on the implementation's own output (independent of the Lean model).
    waves = (uo, do) from int_complete for excitation (u, d) per slice; returns max residual."""
    worst = 0.0
    for k in range(len(As)):
        A11, A12, A21, A22 = (gen.mat_np(As[k][x], *shape(As[k], x)) for x in ("S11", "S12", "S21", "S22"))
        B11, B12, B21, B22 = (gen.mat_np(Bs[k][x], *shape(Bs[k], x)) for x in ("S11", "S12", "S21", "S22"))
        u, d = us, ds
        f = waves[0][k]
        g = waves[1][k]
        # interface equations
        r1 = f - (A11 @ u + A12 @ g)
        r2 = g - (B21 @ f + B22 @ d)
        rA = A21 @ u + A22 @ g
        rB = B11 @ f + B12 @ d
        r3 = rA - (C.S21[k] @ u + C.S22[k] @ d)
        r4 = rB - (C.S11[k] @ u + C.S12[k] @ d)
        for r in (r1, r2, r3, r4):
            if r.size:
                worst = max(worst, float(np.max(np.abs(r))))
    return worst


def shape(A, x):
    N, M = A["N"], A["M"]
    return {"S11": (M, N), "S22": (N, M), "S12": (M, M), "S21": (N, N)}[x]


def run_case(ctx, case):
    """case: {"As":[...], "Bs":[...], "u":[...], "d":[...], "kind": ...} (model-side Fractions)"""
    As, Bs = case["As"], case["Bs"]
    N, K, K2, M = As[0]["N"], As[0]["M"], Bs[0]["N"], Bs[0]["M"]
    u = np.array([complex(float(z[0]), float(z[1])) for z in case["u"]], complex)
    d = np.array([complex(float(z[0]), float(z[1])) for z in case["d"]], complex)
    # ---- implementation
    mutated = None
    try:
        SA = impl_smat(As)
        SB = impl_smat(Bs)
        snap = [x.copy() for x in (SA.S11, SA.S12, SA.S21, SA.S22, SB.S11, SB.S12, SB.S21, SB.S22)]
        C = SA.add(SB)
        Csnap = [x.copy() for x in (C.S11, C.S12, C.S21, C.S22)]
        now = (SA.S11, SA.S12, SA.S21, SA.S22, SB.S11, SB.S12, SB.S21, SB.S22)
        if any(a.shape != b.shape or not np.array_equal(a, b) for a, b in zip(snap, now)):
            mutated = "operands changed by add()"
        else:
            # the join is a function of its operands: joining the same objects again gives the same blocks,
            # and the first result is not altered by the second call
            C2 = SA.add(SB)
            if any(not np.allclose(a, b, atol=1e-12) for a, b in zip(Csnap, (C2.S11, C2.S12, C2.S21, C2.S22))):
                mutated = "second add() of the same operands differs from the first"
            elif any(not np.array_equal(a, b) for a, b in zip(Csnap, (C.S11, C.S12, C.S21, C.S22))):
                mutated = "an earlier result changed when the operands were joined again"
        waves = SA.int_complete(SB, u, d)
        waves = (np.asarray(waves[0]).reshape(len(As), -1), np.asarray(waves[1]).reshape(len(As), -1))
        out_impl = "ok"
    except Exception as e:  # noqa
        out_impl = impl.outcome_class(e)
        C = None
    # ---- model
    req = {"op": "star", "As": [smat_json(a) for a in As], "Bs": [smat_json(b) for b in Bs]}
    ans = ctx.driver.ask(req)
    out_model = "ok" if "Cs" in ans else ans.get("err", "?")
    replay = {"As": [smat_json(a) for a in As], "Bs": [smat_json(b) for b in Bs],
              "u": [[frac_str(z[0]), frac_str(z[1])] for z in case["u"]],
              "d": [[frac_str(z[0]), frac_str(z[1])] for z in case["d"]], "kind": case.get("kind")}
    # ---- expected outcome classes
    if K != K2:
        ctx.tag("dims:mismatch")
        if out_impl == "ok":
            ctx.violation("C18:guard-missing", f"mismatched intermediate dimensions {K}!={K2} accepted", replay)
        if out_model != "dimension":
            ctx.disagreement("C18.model.guard", f"model says {out_model}", replay)
        return
    if case.get("kind") == "singular":
        ctx.tag("inner:singular")
        if out_impl == "ok" and C is not None and np.all(np.isfinite(C.S11)) and np.all(np.isfinite(C.S21)):
            ctx.violation("C18:singular-accepted", "exactly singular inner system returned a finite matrix", replay)
        if out_model != "singular":
            ctx.disagreement("C18.model.singular", f"model says {out_model}", replay)
        return
    if out_impl != "ok":
        ctx.violation(f"C18:unexpected-{out_impl}", f"add/int_complete raised {out_impl} on a well-posed pair", replay)
        return
    if mutated:
        ctx.violation("C18:operand-reuse", f"join is not a pure function of its operands: {mutated}", replay)
        return
    # ---- oracle (independent of the model): pair equations
    res = oracle_pair(As, Bs, C, waves, u, d)
    if not (res <= TOL):
        ctx.violation("C18:pair-equations", f"pair equations violated by the implementation's output, residual {res:.3e}", replay)
        return
    # result shape
    if C.S21.shape[-2:] != (N, N) or C.S12.shape[-2:] != (M, M) or C.S11.shape[-2:] != (M, N) or C.S22.shape[-2:] != (N, M):
        ctx.violation("C18:result-shape", "result blocks have wrong shapes", replay)
        return
    # ---- correspondence with the exact model
    if out_model != "ok":
        ctx.disagreement("C18.model.add", f"model says {out_model}, implementation ok", replay)
        return
    worst = 0.0
    for k, Cj in enumerate(ans["Cs"]):
        for name, arr in (("S11", C.S11), ("S22", C.S22), ("S12", C.S12), ("S21", C.S21)):
            r, c = {"S11": (M, N), "S22": (N, M), "S12": (M, M), "S21": (N, N)}[name]
            ex = gen.json_mat_np(Cj[name], r, c)
            if ex.size:
                worst = max(worst, float(np.max(np.abs(ex - arr[k]))))
    if worst > TOL:
        ctx.disagreement("C18.model.add", f"exact model and numpy differ by {worst:.3e}", replay)
    # waves vs model (single-slice request)
    a1 = ctx.driver.ask({"op": "star", "A": smat_json(As[0]), "B": smat_json(Bs[0]), "u": replay["u"], "d": replay["d"]})
    if "f" in a1:
        f = gen.json_mat_np(a1["f"], K, 1)[:, 0] if K else np.zeros(0)
        g = gen.json_mat_np(a1["g"], K, 1)[:, 0] if K else np.zeros(0)
        w = max([0.0] + list(np.abs(f - waves[0][0])) + list(np.abs(g - waves[1][0])))
        if w > TOL:
            ctx.disagreement("C18.model.int_complete", f"interface waves differ by {w:.3e}", replay)
    else:
        ctx.disagreement("C18.model.int_complete", f"model: {a1}", replay)


def gen_case(rng, kind):
    N, K, M = (rng.choice([0, 1, 1, 2, 2, 3, 3, 4]) for _ in range(3))
    ns = rng.randint(1, 5)
    K2 = K
    if kind == "mismatch":
        K2 = K + rng.choice([1, 2]) if rng.random() < 0.5 or K == 0 else K - 1
        ns = 1
    As = [rand_smat(rng, N, K) for _ in range(ns)]
    Bs = [rand_smat(rng, K2, M) for _ in range(ns)]
    if kind == "singular":
        from fractions import Fraction
        K = max(K, 1)
        N, M = max(N, 1), max(M, 1)
        As = [rand_smat(rng, N, K)]
        Bs = [rand_smat(rng, K, M)]
        one = lambda i, j: (Fraction(1 if i == j else 0), Fraction(0))
        As[0]["S12"] = [[one(i, j) for j in range(K)] for i in range(K)]
        Bs[0]["S21"] = [[one(i, j) for j in range(K)] for i in range(K)]
    if kind == "oneway":
        # coupling blocks whose product vanishes in one order only: A.S12 lives on the columns J, B.S21 on the rows
        # outside J (so A.S12 B.S21 = 0 while B.S21 A.S12 != 0), or the mirror image; everything else dense
        K = max(K, 2)
        N, M = max(N, 1), max(M, 1)
        ns = rng.randint(1, 3)
        J = set(rng.sample(range(K), rng.randint(1, K - 1)))
        flip = rng.random() < 0.5
        As, Bs = [], []
        for _ in range(ns):
            A, B = rand_smat(rng, N, K), rand_smat(rng, K, M)
            for i in range(K):
                for j in range(K):
                    inA = (j in J) if not flip else (i not in J)
                    inB = (i not in J) if not flip else (j in J)
                    if not inA:
                        A["S12"][i][j] = gen.CZ
                    if not inB:
                        B["S21"][i][j] = gen.CZ
            As.append(A)
            Bs.append(B)
    if kind == "structured":
        for _ in range(30):
            c = gen_case_structured(rng, N, K, M)
            ok = True
            for A, B in zip(c["As"], c["Bs"]):
                k = A["M"]
                if k:
                    X = np.eye(k) - gen.mat_np(A["S12"], k, k) @ gen.mat_np(B["S21"], k, k)
                    if np.linalg.cond(X) > 1e3:
                        ok = False
            if ok:
                return c
        return gen_case(rng, "regular")
    u = [gen.cdyadic(rng, pzero=0.2) for _ in range(N)]
    d = [gen.cdyadic(rng, pzero=0.2) for _ in range(M)]
    return {"As": As, "Bs": Bs, "u": u, "d": d, "kind": kind}


def gen_case_structured(rng, N, K, M):
    kind = "structured"
    if True:
        if rng.random() < 0.7:
            N = M = K = max(K, 1)                       # square operands: where "neutral element" shortcuts would apply
        ns = rng.randint(1, 3)
        which = rng.choice(["A", "B", "both"])
        As = [structured_smat(rng, N, K) if which in ("A", "both") else rand_smat(rng, N, K) for _ in range(ns)]
        Bs = [structured_smat(rng, K, M) if which in ("B", "both") else rand_smat(rng, K, M) for _ in range(ns)]
        if ns > 1 and rng.random() < 0.5:               # the same structured operand at every sweep point
            if which in ("A", "both"):
                As = [As[0]] * ns
            if which in ("B", "both"):
                Bs = [Bs[0]] * ns
    u = [gen.cdyadic(rng, pzero=0.2) for _ in range(N)]
    d = [gen.cdyadic(rng, pzero=0.2) for _ in range(M)]
    return {"As": As, "Bs": Bs, "u": u, "d": d, "kind": kind}


def run(ctx):
    rng = ctx.subrng("c18")
    n = ctx.budget(400, 6000)
    # thorough / widened: all dimension triples <= 3 first
    triples = []
    if ctx.tier == "thorough" or ctx.scale > 1:
        triples = [(a, b, c) for a in range(4) for b in range(4) for c in range(4)]
    for (N, K, M) in triples:
        case = {"As": [rand_smat(rng, N, K)], "Bs": [rand_smat(rng, K, M)],
                "u": [gen.cdyadic(rng) for _ in range(N)], "d": [gen.cdyadic(rng) for _ in range(M)], "kind": "enum"}
        ctx.case(("enum", N, K, M), nontrivial=K >= 1, tags=(f"dims:{N},{K},{M}",))
        run_case(ctx, case)
    for i in range(n):
        if ctx.time_left() < 0:
            break
        r = rng.random()
        kind = "mismatch" if r < 0.08 else "singular" if r < 0.14 else "structured" if r < 0.4 else "oneway" if r < 0.5 else "regular"
        case = gen_case(rng, kind)
        A0, B0 = case["As"][0], case["Bs"][0]
        nz = any(z != gen.CZ for row in A0["S12"] for z in row) and any(z != gen.CZ for row in B0["S21"] for z in row)
        ctx.case((kind, smat_json(A0), smat_json(B0), len(case["As"])), nontrivial=(A0["M"] >= 1 and nz),
                 tags=(f"kind:{kind}", f"K:{A0['M']}", f"batch:{len(case['As'])}",
                       "zero-dim" if 0 in (A0["N"], A0["M"], B0["M"]) else "nonzero-dim"),
                 sample={"kind": kind, "N": A0["N"], "K": A0["M"], "M": B0["M"], "batch": len(case["As"]),
                         "A.S12": gen.mat_json(A0["S12"])} if i < 3 else None)
        run_case(ctx, case)


def replay(ctx, data):
    case = {"As": [smat_from_json(a) for a in data["As"]], "Bs": [smat_from_json(b) for b in data["Bs"]],
            "u": [(__import__("fractions").Fraction(z[0]), __import__("fractions").Fraction(z[1])) for z in data["u"]],
            "d": [(__import__("fractions").Fraction(z[0]), __import__("fractions").Fraction(z[1])) for z in data["d"]],
            "kind": data.get("kind")}
    run_case(ctx, case)
    if ctx.violations:
        return False, ctx.violations[0]["what"]
    return True, "pair equations hold on the implementation's output" + (
        f"; model disagreement: {ctx.disagreements[0]['what']}" if ctx.disagreements else "")
