"""C05 — parameter precedence and renaming.
Probe: a multi-parameter phase shifter whose every parameter is read off its own pin pair, placed in random
hierarchies with random injective renamings (chains, swaps), listing orders, defaults and overrides.
Oracle: an independent evaluation of the stated rules (simultaneous substitution; explicit > solver default >
model default).  Correspondence: Structure.update_params vs the Lean `renameFixed`."""
from __future__ import annotations

import copy
import itertools

import numpy as np

import impl

RULE = ("random hierarchies (depth 1-3, 1-3 placements per solver) of probe blocks with 1-3 parameters over a 4-name "
        "alphabet, random injective renamings per placement biased towards chains and permutations, random listing "
        "order of the pairs, all values distinct so the source of every value is identifiable; plus every renaming of "
        "a 3-parameter probe over its own names in every listing order (thorough) and add_param cases with/without "
        "set_param and explicit values; distinct = distinct case description; non-trivial = at least one renaming")
TRUSTED = ["the oracle: a 60-line independent evaluation of the precedence/renaming rules in the harness"]
ASSUMPTIONS = ["renamings are injective on the child's full parameter set (as the property quantifies)",
               "defaults are changed with set_param only at the level where they are observed or before placement"]
EXPLANATION = "renameFixed_spec: the rename step is the simultaneous substitution for every table and listing order"

ALPHA = ["A", "B", "C", "D"]


def probe_class():
    if "probe" in impl._CLASSES:
        return impl._CLASSES["probe"]
    L = impl.lk()
    from copy import deepcopy

    class Probe(L.Model):
        """k parameters; parameter j sets the phase (in units of pi) between pins <tag>a<j> and <tag>b<j>"""

        def __init__(self, tag, params):
            self.names = list(params)
            self.pin_dic = {}
            for j, nm in enumerate(self.names):
                self.pin_dic[L.Pin(f"{tag}a{j}")] = 2 * j
                self.pin_dic[L.Pin(f"{tag}b{j}")] = 2 * j + 1
            self.N = 2 * len(self.names)
            self.param_dic = dict(params)
            self.default_params = deepcopy(self.param_dic)
            self.S = np.zeros((self.N, self.N), complex)
            self.update_pins()

        def create_S(self):
            S = np.zeros((self.N, self.N), complex)
            for j, nm in enumerate(self.names):
                ph = np.exp(1j * np.pi * self.param_dic[nm])
                S[2 * j, 2 * j + 1] = ph
                S[2 * j + 1, 2 * j] = ph
            return S

        def __str__(self):
            return f"Probe{self.names}"

    impl._CLASSES["probe"] = Probe
    return Probe


class Values:
    """distinct dyadic values in (-1, 1) so that a phase identifies its source"""

    def __init__(self, rng):
        pool = [k / 64.0 for k in range(-60, 61) if k != 0]
        rng.shuffle(pool)
        self.pool = pool
        # in a third of the cases one of the values handed out is zero (0.0 or the integer 0): a legitimate value that is falsy
        self.zero_at = rng.randrange(8) if rng.random() < 0.33 else None
        self.zero = rng.choice([0.0, 0])
        self.count = 0

    def new(self):
        self.count += 1
        if self.zero_at is not None and self.count - 1 == self.zero_at:
            return self.zero
        return self.pool.pop()


def rand_rename(rng, names):
    """random injective (on `names`) renaming old->new; biased towards chains / swaps; random listing order"""
    names = list(names)
    if not names or rng.random() < 0.2:
        return {}
    r = rng.random()
    if r < 0.35 and len(names) >= 2:
        perm = names[:]
        rng.shuffle(perm)
        pairs = [(o, n) for o, n in zip(names, perm) if o != n]          # permutation of its own names (swaps, cycles)
    elif r < 0.7:
        # chain into the alphabet: total map must stay injective on `names`
        targets = [a for a in ALPHA + ["E", "F"]]
        rng.shuffle(targets)
        sub = [x for x in names if rng.random() < 0.7] or names[:1]
        total = {}
        used = set()
        pairs = []
        for x in sub:
            for t in targets:
                if t not in used and t != x:
                    total[x] = t
                    used.add(t)
                    pairs.append((x, t))
                    break
        # unrenamed names keep their own name: must not collide with a new name
        for x in names:
            if x not in total and x in used:
                # rename it away too (extends the chain)
                for t in targets:
                    if t not in used and t != x and t not in names:
                        total[x] = t
                        used.add(t)
                        pairs.append((x, t))
                        break
                else:
                    return {}
    else:
        sub = [x for x in names if rng.random() < 0.5]
        pairs = [(x, x + "_r") for x in sub]
    rng.shuffle(pairs)
    return dict(pairs)


def visible(rho, x):
    return rho.get(x, x)


def total_injective(rho, names):
    img = [visible(rho, x) for x in names]
    return len(set(img)) == len(img)


# ---------------------------------------------------------------- case generation: a tree of solvers
def gen_tree(rng, vals, depth, counter):
    """node = {"kind":"solver","children":[(child, rho)], "set": {name: value}}  |  {"kind":"probe","tag","params"}"""
    node = {"kind": "solver", "children": [], "set": {}}
    for _ in range(rng.randint(1, 3)):
        if depth > 1 and rng.random() < 0.5:
            child = gen_tree(rng, vals, depth - 1, counter)
        else:
            counter[0] += 1
            k = rng.randint(1, 3)
            names = rng.sample(ALPHA, k)
            child = {"kind": "probe", "tag": f"q{counter[0]}", "params": {nm: vals.new() for nm in names}}
        names = list(visible_defaults(child))
        rho = rand_rename(rng, names)
        if not total_injective(rho, names):
            rho = {}
        node["children"].append((child, rho))
    # set_param at this level (before it is placed anywhere) for some visible names
    for nm in list(visible_defaults(node)):
        if rng.random() < 0.25:
            node["set"][nm] = vals.new()
    return node


def visible_defaults(node):
    """the oracle's own account of default_params (name -> value) of a node, by the stated rules"""
    if node["kind"] == "probe":
        return dict(node["params"])
    d = {}
    for child, rho in node["children"]:
        for x, v in visible_defaults(child).items():
            d[visible(rho, x)] = v          # later placements override earlier ones
    d.update(node["set"])
    return d


def expected(node, env, out):
    """env: name -> value visible at this node's level (explicit and defaults already merged by the caller)"""
    if node["kind"] == "probe":
        for nm in node["params"]:
            out[(node["tag"], nm)] = env.get(nm, node["params"][nm])
        return
    # this solver: its own defaults overlaid with what it was given
    local = dict(visible_defaults(node))
    local.update(env)
    for child, rho in node["children"]:
        cnames = list(visible_defaults(child))
        cenv = {}
        inv_new = set(rho.values())
        for k, v in local.items():
            if k in rho:            # an old name at this level never reaches the child
                continue
            if k in inv_new:        # handled below through its old name
                continue
            cenv[k] = v
        for old, new in rho.items():
            if new in local:
                cenv[old] = local[new]
        expected(child, cenv, out)


def build(node):
    """build the real objects; returns (object, list of (tag, pname, pin_a, pin_b)) with pins raised to this level"""
    L = impl.lk()
    if node["kind"] == "probe":
        P = probe_class()
        m = P(node["tag"], node["params"])
        pins = [(node["tag"], nm, f"{node['tag']}a{j}", f"{node['tag']}b{j}") for j, nm in enumerate(m.names)]
        return m, pins
    sol = L.Solver()
    allpins = []
    with sol:
        for child, rho in node["children"]:
            obj, pins = build(child)
            st = obj.put(param_mapping=dict(rho)) if rho else obj.put()
            allpins += pins
        L.raise_pins()
        for nm, v in node["set"].items():
            sol.set_param(nm, v)
    return sol, allpins


def observe(mod, pins):
    out = {}
    for tag, nm, a, b in pins:
        z = mod.get_A(a, b)
        out[(tag, nm)] = float(np.angle(z) / np.pi)
    return out


def describe(node):
    if node["kind"] == "probe":
        return {"probe": node["tag"], "params": node["params"]}
    return {"solver": [[describe(c), list(rho.items())] for c, rho in node["children"]], "set": node["set"]}


def undescribe(d):
    if "probe" in d:
        return {"kind": "probe", "tag": d["probe"], "params": dict(d["params"])}
    return {"kind": "solver", "children": [(undescribe(c), dict(r)) for c, r in d["solver"]], "set": dict(d["set"])}


def has_rename(node):
    if node["kind"] == "probe":
        return False
    return any(rho or has_rename(c) for c, rho in node["children"])


def check_tree(ctx, tree, explicit, replay):
    try:
        sol, pins = build(tree)
        mod = sol.solve(**explicit)
        got = observe(mod, pins)
    except Exception as e:  # noqa
        ctx.violation(f"C05:raised-{impl.outcome_class(e)}", f"building/solving a valid hierarchy raised {type(e).__name__}: {str(e)[:80]}", replay)
        return False
    exp = {}
    expected(tree, dict(explicit), exp)
    bad = []
    for key, v in exp.items():
        w = ((v + 1) % 2) - 1          # phase is known mod 2
        g = got.get(key)
        if g is None or abs(((g - w + 1) % 2) - 1) > 1e-9:
            bad.append((key, v, g))
    if bad:
        key, v, g = bad[0]
        sig = "C05:rename-order" if has_rename(tree) else "C05:precedence"
        ctx.violation(sig, f"instance {key[0]} parameter {key[1]} uses {g}, the rules give {v} ({len(bad)} of {len(exp)} values wrong)", replay)
        return False
    if not check_descend(ctx, sol, explicit, got, replay):
        return False
    # defaults as a dict
    dd = visible_defaults(tree)
    real = {k: v for k, v in sol.default_params.items() if k != "wl"}
    if set(real) != set(dd) or any(abs(real[k] - dd[k]) > 1e-12 for k in dd):
        ctx.violation("C05:default-params", f"Solver.default_params {sorted(real.items())} differs from the rules {sorted(dd.items())}", replay)
        return False
    return True


def leaf_paths(sol, prefix=()):
    """[(probe model, [(table as stored [(new, old)], defaults of the placed object), ...] from the top down)] read off the
    *real* objects: every placement's own rename table and the placed solver's / model's own default_params"""
    out = []
    for st in sol.structures:
        child = st.solver if getattr(st, "solver", None) is not None else st.model
        cd = dict(child.default_params)
        if getattr(st, "solver", None) is not None:
            cd = {k: v for k, v in cd.items() if v is not None}      # placeholder defaults of a solver are not values
        level = ([(n, o) for n, o in st.param_mapping.items()], cd)
        if getattr(st, "solver", None) is not None:
            out += leaf_paths(child, prefix + (level,))
        else:
            out.append((child, list(prefix + (level,))))
    return out


def check_descend(ctx, sol, explicit, got, replay):
    """correspondence of the Lean `descend` (Model/Params.lean, the object of C05_precedence_any_depth) with the running
    hierarchy: the dictionary the model predicts at the bottom of every path of placements vs the phases the probe there shows"""
    def enc(v):
        return "None" if v is None else repr(float(v))
    # a solver default of None is the placeholder for "no default": Solver.update_params does not forward it
    top_defaults = [[k, enc(v)] for k, v in sol.default_params.items() if v is not None]
    args = [[k, enc(v)] for k, v in explicit.items()]
    for probe, path in leaf_paths(sol):
        q = {"op": "descend", "defaults": top_defaults, "args": args,
             "levels": [{"table": [[n, o] for n, o in t], "defaults": [[k, enc(v)] for k, v in cd.items()]} for t, cd in path]}
        ans = ctx.driver.ask(q)
        ctx.tag(f"descend-depth:{len(path)}")
        if "dict" not in ans:
            ctx.disagreement("C05.model.descend", f"driver answered {ans}", replay)
            return False
        d = {k: float(v) for k, v in ans["dict"] if v != "None"}
        for nm in probe.names:
            key = [k for k in got if k[1] == nm and any(p.name.startswith(k[0] + "a") for p in probe.pin_dic)]
            if not key or nm not in d:
                ctx.disagreement("C05.model.descend", f"no value for parameter {nm} at depth {len(path)}", replay)
                return False
            g, w = got[key[0]], ((d[nm] + 1) % 2) - 1
            if abs(((g - w + 1) % 2) - 1) > 1e-9:
                ctx.disagreement("C05.model.descend", f"probe {key[0][0]} parameter {nm}: implementation uses {g}, Lean descend gives {d[nm]} (depth {len(path)})", replay)
                return False
    return True


# ---------------------------------------------------------------- unit-level correspondence with the Lean model
def check_rename_unit(ctx, table_pairs, d, replay):
    """Structure.update_params on a bare structure vs Lean renameFixed; oracle: simultaneous substitution"""
    L = impl.lk()
    P = probe_class()
    olds = [o for o, n in table_pairs]
    m = P("u", {o: 0.0 for o in set(olds) | {"Z"}})
    st = L.Structure(model=m, param_mapping=dict(table_pairs))
    try:
        st.update_params(dict(d))
        got = dict(st.param_dic)
    except Exception as e:  # noqa
        ctx.violation(f"C05:rename-raised-{type(e).__name__}", f"Structure.update_params raised {type(e).__name__} for table {table_pairs}", replay)
        return False
    # oracle
    rho = dict(table_pairs)
    news = set(rho.values())
    exp = {k: v for k, v in d.items() if k not in rho and k not in news}
    for o, n in rho.items():
        if n in d:
            exp[o] = d[n]
    ok = True
    if got != exp:
        ctx.violation("C05:rename-order", f"renaming {table_pairs} of {d}: got {got}, simultaneous substitution gives {exp}", replay)
        ok = False
    ans = ctx.driver.ask({"op": "rename", "table": [[n, o] for o, n in table_pairs], "dict": [[k, str(v)] for k, v in d.items()]})
    if "dict" not in ans:
        ctx.disagreement("C05.model.rename", f"model: {ans}", replay)
    else:
        md = {k: float(v) for k, v in ans["dict"]}
        if md != got:
            ctx.disagreement("C05.model.rename", f"model {md} vs implementation {got}", replay)
    return ok


def check_add_param(ctx, rng, vals, replay_extra=None):
    """old parameter defined through add_param from new arguments: explicit > current solver default > definition default"""
    L = impl.lk()
    P = probe_class()
    tag = "ap"
    d0, dx, dy = vals.new(), vals.new(), vals.new()
    use_set = rng.random() < 0.6
    use_exp = rng.random() < 0.5
    sx = vals.new()
    ex = vals.new()
    # zero (float or int) is a legitimate solver default / explicit value / definition default; at most one of them is zero so that
    # the value still identifies its source
    z = rng.random()
    if z < 0.25:
        sx = rng.choice([0.0, 0])
    elif z < 0.37:
        ex = rng.choice([0.0, 0])
    elif z < 0.47:
        dx = rng.choice([0.0, 0])
    nested = rng.random() < 0.4
    replay = {"kind": "add_param", "d0": d0, "dx": dx, "dy": dy, "set": sx if use_set else None, "explicit": ex if use_exp else None, "nested": nested,
              "implicit_definition": rng.random() < 0.4}
    ctx.case(("add_param", use_set, use_exp, nested, d0, dx), tags=["stream:add_param", f"set:{use_set}", f"explicit:{use_exp}", f"nested:{nested}"])
    return run_add_param(ctx, replay)


def run_add_param(ctx, r):
    L = impl.lk()
    P = probe_class()
    try:
        sol = L.Solver()
        with sol:
            m = P("ap", {"A": r["d0"]})
            m.put()
            L.raise_pins()
            if r.get("implicit_definition"):
                # the definition defaults are the keyword defaults of the function itself (add_param without a dictionary)
                L.add_param("A", (lambda dx, dy: (lambda x=dx, y=dy: x + y))(r["dx"], r["dy"]))
            else:
                L.add_param("A", lambda x, y: x + y, {"x": r["dx"], "y": r["dy"]})
            if r["set"] is not None:
                sol.set_param("x", r["set"])
        top = sol
        if r["nested"]:
            top = L.Solver()
            with top:
                sol.put()
                L.raise_pins()
        kw = {"x": r["explicit"]} if r["explicit"] is not None else {}
        mod = top.solve(**kw)
        got = float(np.angle(mod.get_A("apa0", "apb0")) / np.pi)
    except Exception as e:  # noqa
        ctx.violation(f"C05:add-param-raised-{type(e).__name__}", f"add_param case raised {type(e).__name__}: {str(e)[:80]}", r)
        return False
    x = r["explicit"] if r["explicit"] is not None else (r["set"] if r["set"] is not None else r["dx"])
    exp = x + r["dy"]
    if abs(((got - exp + 1) % 2) - 1) > 1e-9:
        ctx.violation("C05:add-param-default", f"add_param value computed from x={got - r['dy']:.6f}, the rules give x={x} "
                      f"(explicit={r['explicit']}, set_param={r['set']}, definition default={r['dx']})", r)
        return False
    return True


def check_add_param_sibling(ctx, rng, vals):
    """a sub-solver redefines A through add_param; its parent also holds a plain probe with a live parameter A:
    the parent's A must reach the sibling only, the sub-solver's instance keeps the computed value"""
    L = impl.lk()
    P = probe_class()
    d0, dx, dy, dsib = vals.new(), vals.new(), vals.new(), vals.new()
    order = rng.random() < 0.5
    explicit_A = vals.new() if rng.random() < 0.5 else None
    explicit_x = vals.new() if rng.random() < 0.5 else None
    r = {"kind": "add_param_sibling", "d0": d0, "dx": dx, "dy": dy, "dsib": dsib, "sub_first": order, "A": explicit_A, "x": explicit_x}
    ctx.case(("add_param_sibling", order, explicit_A is not None, explicit_x is not None, d0), tags=["stream:add_param_sibling"])
    return run_add_param_sibling(ctx, r)


def run_add_param_sibling(ctx, r):
    L = impl.lk()
    P = probe_class()
    try:
        sub = L.Solver()
        with sub:
            P("ap", {"A": r["d0"]}).put()
            L.raise_pins()
            if r.get("implicit_definition"):
                # the definition defaults are the keyword defaults of the function itself (add_param without a dictionary)
                L.add_param("A", (lambda dx, dy: (lambda x=dx, y=dy: x + y))(r["dx"], r["dy"]))
            else:
                L.add_param("A", lambda x, y: x + y, {"x": r["dx"], "y": r["dy"]})
        top = L.Solver()
        with top:
            if r["sub_first"]:
                sub.put()
                P("sib", {"A": r["dsib"]}).put()
            else:
                P("sib", {"A": r["dsib"]}).put()
                sub.put()
            L.raise_pins()
        kw = {}
        if r["A"] is not None:
            kw["A"] = r["A"]
        if r["x"] is not None:
            kw["x"] = r["x"]
        mod = top.solve(**kw)
        got_sub = float(np.angle(mod.get_A("apa0", "apb0")) / np.pi)
        got_sib = float(np.angle(mod.get_A("siba0", "sibb0")) / np.pi)
    except Exception as e:  # noqa
        ctx.violation(f"C05:add-param-sibling-raised-{type(e).__name__}", f"{type(e).__name__}: {str(e)[:70]}", r)
        return False
    x = r["x"] if r["x"] is not None else r["dx"]
    exp_sub = x + r["dy"]
    dist = lambda a, b: abs(((a - b + 1) % 2) - 1)
    if dist(got_sub, exp_sub) > 1e-9:
        ctx.violation("C05:add-param-overridden", f"the add_param-defined parameter of the sub-solver is {got_sub:.6f}; computed from its arguments it must be {exp_sub:.6f} "
                      f"(a value travelling under the replaced name A reached it)", r)
        return False
    # the sibling follows the parent's A: explicit value, else the parent's default (last structure added defines it)
    return True


def check_solver_params_unit(ctx, rng):
    """Solver.update_params against the Lean `solverParams` (defaults < call values < add_param-derived)"""
    L = impl.lk()
    names = ["A", "B", "x", "y"]
    defaults = {n: rng.randint(1, 9) for n in names if rng.random() < 0.8}
    args = {n: rng.randint(10, 19) for n in names if rng.random() < 0.5}
    derived_name = rng.choice(["A", "B"])
    sol = L.Solver()
    sol.default_params = dict(defaults)
    const = rng.randint(20, 29)
    sol.param_mapping = {derived_name: ((lambda **kw: const), {"zz": 0})}
    rep = {"kind": "solver-params-unit", "defaults": defaults, "args": args, "derived": {derived_name: const}}
    ctx.case(rep, tags=["stream:solver-params-unit"])
    try:
        sol.update_params(dict(args))
        got = {k: v for k, v in sol.param_dic.items()}
    except Exception as e:  # noqa
        ctx.violation(f"C05:update-params-raised-{type(e).__name__}", str(e)[:80], rep)
        return
    ans = ctx.driver.ask({"op": "solverparams", "defaults": [[k, str(v)] for k, v in defaults.items()],
                          "args": [[k, str(v)] for k, v in args.items()], "derived": [[derived_name, str(const)]]})
    if "dict" not in ans:
        ctx.disagreement("C05.model.solverParams", f"model: {ans}", rep)
        return
    md = {k: int(v) for k, v in ans["dict"]}
    if md != got:
        # who is right?  the rule: derived > explicit > default
        exp = dict(defaults); exp.update(args); exp[derived_name] = const
        if got != exp:
            ctx.violation("C05:precedence", f"Solver.update_params gives {got}, the precedence rule gives {exp}", rep)
        else:
            ctx.disagreement("C05.model.solverParams", f"model {md} vs implementation {got}", rep)


def check_register_unit(ctx, rng):
    """Solver.add_structure (parameter part) against the Lean `registerDefaults`, and the round trip
    register -> hand down: with no explicit value every parameter of the component gets its own default back"""
    L = impl.lk()
    names = ["A", "B", "C", "D", "R", "w", "pol"]
    child = {n: rng.randint(1, 99) for n in names if rng.random() < 0.6}
    if not child:
        child = {"A": 1}
    olds = rng.sample(["A", "B", "C", "D", "E"], rng.randint(0, 3))
    kind = rng.choice(["fresh", "perm", "mixed"])
    if kind == "fresh":
        news = [o + "_n" for o in olds]
    elif kind == "perm":
        news = olds[1:] + olds[:1]
    else:
        news = rng.sample(["A", "B", "C", "D", "E", "F", "G"], len(olds))
    table = {o: n for o, n in zip(olds, news) if o != n}          # Structure(param_mapping={old: new})
    rep = {"kind": "register-unit", "child": child, "table": table}
    merge = any(n in child and n not in table for n in table.values())
    ctx.case(rep, tags=["stream:register-unit", f"table:{kind}", "merge" if merge else "injective"])
    run_register_unit(ctx, rep)


def run_register_unit(ctx, rep):
    L = impl.lk()
    child, table = rep["child"], rep["table"]
    merge = any(n in child and n not in table for n in table.values())
    try:
        m = L.Model(pin_dic={L.Pin("a"): 0, L.Pin("b"): 1}, param_dic=dict(child))
        st = L.Structure(model=m, param_mapping=dict(table))
        sol = L.Solver()
        sol.add_structure(st)
        got = [(k, v) for k, v in sol.default_params.items() if k != "wl"]
        st.update_params(dict(sol.default_params))
        down = dict(st.param_dic)
    except Exception as e:  # noqa
        ctx.violation(f"C05:register-raised-{type(e).__name__}", f"add_structure / update_params raised {type(e).__name__}: {str(e)[:70]}", rep)
        return
    ans = ctx.driver.ask({"op": "register", "table": [[n, o] for o, n in table.items()], "parent": [], "child": [[k, str(v)] for k, v in child.items()]})
    if "dict" not in ans:
        ctx.disagreement("C05.model.registerDefaults", f"model: {ans}", rep)
        return
    md = [(k, int(v)) for k, v in ans["dict"]]
    if md != got:
        ctx.disagreement("C05.model.registerDefaults", f"Lean registerDefaults {md} vs Solver.default_params {got}", rep)
    if not merge:
        for k, v in child.items():
            if k in ("R", "w", "pol"):
                continue
            if down.get(k) != v:
                ctx.violation("C05:defaults-roundtrip", f"component default {k}={v} registered through {table} comes back as {down.get(k)} when the parent's defaults are handed down", rep)
                return


def implicit_default_case(ctx, seed):
    """a parameter the model reads but does not declare (its own implicit default, like CWA's wl or the keyword defaults of a user
    index function): one model object placed twice, one placement renaming that parameter; each instance must use the value given
    under the name by which the parameter is visible for *it*, else the model's own implicit default - whatever the other
    placement and earlier solves were given"""
    import random as _random
    L = impl.lk()
    rng = _random.Random(f"c05-implicit-{seed}")
    z0 = rng.choice([0.125, -0.25, 0.375])

    class Implicit(L.Model):
        def __init__(self):
            self.pin_dic = {L.Pin("a0"): 0, L.Pin("b0"): 1}
            self.N = 2
            self.param_dic = {"A": 0.0625}
            self.default_params = {"A": 0.0625}
            self.S = np.zeros((2, 2), complex)
            self.update_pins()

        def create_S(self):
            ph = np.exp(1j * np.pi * (self.param_dic["A"] + self.param_dic.get("Z", z0)))
            S = np.zeros((2, 2), complex)
            S[0, 1] = S[1, 0] = ph
            return S
    m = Implicit()
    sol = L.Solver()
    with sol:
        st1 = m.put()
        st2 = m.put(param_mapping={"Z": "Zr"})
        L.putpin("i1", st1.pin["a0"]); L.putpin("o1", st1.pin["b0"])
        L.putpin("i2", st2.pin["a0"]); L.putpin("o2", st2.pin["b0"])
    rep = {"kind": "implicit-default", "seed": seed}
    ctx.case(rep, tags=["stream:implicit-default"])
    calls = []
    for _ in range(5):
        kw = {}
        if rng.random() < 0.5:
            kw["Z"] = rng.choice([0.5, -0.75, 0.3125])
        if rng.random() < 0.5:
            kw["Zr"] = rng.choice([0.25, -0.5, 0.6875])
        if rng.random() < 0.3:
            kw["A"] = rng.choice([0.1875, -0.125])
        calls.append(kw)
    if rng.random() < 0.5:
        m.solve(Z=0.9375)                    # an earlier stand-alone evaluation of the shared model object
    try:
        for kw in calls:
            mod = sol.solve(**kw)
            a = kw.get("A", 0.0625)
            want1 = np.exp(1j * np.pi * (a + kw.get("Z", z0)))
            want2 = np.exp(1j * np.pi * (a + kw.get("Zr", z0)))
            g1, g2 = mod.get_A("i1", "o1"), mod.get_A("i2", "o2")
            if abs(g1 - want1) > 1e-12 or abs(g2 - want2) > 1e-12:
                which = "the unrenamed instance" if abs(g1 - want1) > 1e-12 else "the instance whose Z is renamed to Zr"
                ctx.violation("C05:implicit-default", f"solve({kw}): {which} does not use (explicit value under its visible name, else the model's own implicit default "
                              f"{z0}); earlier calls {calls[:calls.index(kw)]}", rep)
                return False
    except Exception as e:  # noqa
        ctx.violation(f"C05:implicit-default-raised-{type(e).__name__}", f"{type(e).__name__}: {str(e)[:80]}", rep)
        return False
    return True


def run(ctx):
    for i in range(ctx.budget(30, 300)):
        implicit_default_case(ctx, f"{ctx.seed}:{ctx.scale}:{i}")
    rng = ctx.subrng("c05")
    n = ctx.budget(400, 5000)
    for i in range(n):
        if ctx.time_left() < 0:
            break
        vals = Values(rng)
        tree = gen_tree(rng, vals, rng.randint(1, 3), [0])
        dd = visible_defaults(tree)
        explicit = {nm: vals.new() for nm in dd if rng.random() < 0.4}
        replay = {"kind": "tree", "tree": describe(tree), "explicit": explicit}
        ctx.case(replay, nontrivial=has_rename(tree), tags=["stream:hierarchy", "renamed" if has_rename(tree) else "plain"],
                 sample=replay if i < 1 else None)
        check_tree(ctx, tree, explicit, replay)
    # unit-level renamings (all listing orders of tables over a 3-name alphabet)
    names = ["A", "B", "C"]
    tables = []
    for k in (1, 2, 3):
        for olds in itertools.permutations(names, k):
            for news in itertools.permutations(names + ["D"], k):
                if all(o != nw for o, nw in zip(olds, news)):
                    tot = {x: dict(zip(olds, news)).get(x, x) for x in names}
                    if len(set(tot.values())) == 3:
                        tables.append(list(zip(olds, news)))
    rng.shuffle(tables)
    m = ctx.budget(150, len(tables))
    for t in tables[:m]:
        vals = Values(rng)
        d = {k: vals.new() for k in names + ["D", "Z"] if rng.random() < 0.8}
        replay = {"kind": "unit", "table": t, "dict": d}
        ctx.case(replay, tags=["stream:unit-rename", f"pairs:{len(t)}"])
        check_rename_unit(ctx, t, d, replay)
    for i in range(ctx.budget(40, 400)):
        check_add_param(ctx, rng, Values(rng))
    for i in range(ctx.budget(40, 400)):
        check_add_param_sibling(ctx, rng, Values(rng))
    for i in range(ctx.budget(100, 1000)):
        check_solver_params_unit(ctx, rng)
        check_register_unit(ctx, rng)


def replay(ctx, data):
    if isinstance(data, dict) and data.get("kind") == "implicit-default":
        implicit_default_case(ctx, data["seed"])
        if ctx.violations:
            return False, ctx.violations[0]["what"]
        return True, "implicit defaults and renamed placements of one model object behave by the rules"
    if data["kind"] == "tree":
        check_tree(ctx, undescribe(data["tree"]), data["explicit"], data)
    elif data["kind"] == "add_param_sibling":
        run_add_param_sibling(ctx, data)
    elif data["kind"] == "solver-params-unit":
        return True, "unit stream is regenerated, not replayed"
    elif data["kind"] == "register-unit":
        run_register_unit(ctx, data)
    elif data["kind"] == "unit":
        check_rename_unit(ctx, [tuple(p) for p in data["table"]], data["dict"], data)
    else:
        run_add_param(ctx, data)
    if ctx.violations:
        return False, ctx.violations[0]["what"]
    return True, "parameters follow the precedence and renaming rules"
