"""C19 — prune() removes exactly the dead branches and nothing else.
Random hierarchies with empty models and (recursively) empty solvers inserted at random places and depths;
the surviving structures at every level, the return value and the solved matrix are compared with the
clean build and with the Lean `prune`."""
from __future__ import annotations

import copy

import numpy as np

import circuits as cs
import gen
import hier
import impl

RULE = ("random hierarchies (depth 1-4, thorough 6) into which pinless models (Model(), a matrix without pins, a solved model with no exposed pin) and solvers containing only "
        "dead content (nested up to 3 deep) are inserted at random positions of random solvers, including hierarchies "
        "that are dead altogether; distinct = distinct tree shape (live/dead skeleton); non-trivial = at least one dead "
        "and one live placement")
TRUSTED = ["harness/hier.py (description -> real objects, flattening)"]
ASSUMPTIONS = ["bare Structure objects with neither model nor solver are outside the domain"]
EXPLANATION = "C19_removes_exactly by mutual structural induction: prune = clean, flag = dead"


def empty_leaf(rng):
    """a model without pins: Model(), a model given a matrix but no pins, or the solved model of a
    sub-circuit none of whose pins was exposed"""
    return hier.Leaf([], [], [], empty=rng.choice(["plain", "plain", "matrix", "solved"]))


def dead_solver(rng, depth, pool=None):
    n = hier.Node()
    n.dead = True
    for _ in range(rng.randint(0, 3)):
        if pool and rng.random() < 0.3:
            n.children.append((rng.choice(pool), {}))        # the same dead object placed again
        elif depth > 0 and rng.random() < 0.4:
            n.children.append((dead_solver(rng, depth - 1, pool), {}))
        else:
            n.children.append((empty_leaf(rng), {}))
    return n


def some_dead(rng, pool):
    """a dead placement: an empty model or a dead solver; 40% of the time an object that is already placed elsewhere"""
    if pool and rng.random() < 0.4:
        return rng.choice(pool)
    obj = dead_solver(rng, 2, pool) if rng.random() < 0.5 else empty_leaf(rng)
    pool.append(obj)
    return obj


def insert_dead(rng, node, p=0.35, pool=None, memo=None):
    """returns a copy of the hierarchy with dead placements inserted; child indices of links/exposures are shifted"""
    if node.kind == "leaf":
        return node
    pool = [] if pool is None else pool
    memo = {} if memo is None else memo
    new = hier.Node()
    shift = {}
    for i, (child, rho) in enumerate(node.children):
        while rng.random() < p:
            new.children.append((some_dead(rng, pool), {}))
        shift[i] = len(new.children)
        key = id(child)
        if key not in memo:
            memo[key] = insert_dead(rng, child, p, pool, memo)
        new.children.append((memo[key], dict(rho)))
    while rng.random() < p:
        new.children.append((some_dead(rng, pool), {}))
    new.links = [(shift[i], a, shift[j], b) for (i, a, j, b) in node.links]
    new.expose = [(nm, shift[i], a) for (nm, i, a) in node.expose]
    return new


def skeleton(node):
    if node.kind == "leaf":
        return {"m": bool(node.empty)}
    return {"s": [skeleton(c) for c, _ in node.children]}


def is_dead(node):
    if node.kind == "leaf":
        return node.empty
    return all(is_dead(c) for c, _ in node.children)


def real_skeleton(obj):
    """skeleton of the real objects after prune"""
    L = impl.lk()
    if isinstance(obj, L.Solver):
        out = []
        for st in obj.structures:
            if st.solver is not None:
                out.append(real_skeleton(st.solver))
            elif st.model is not None:
                out.append({"m": len(st.model.pin_dic) == 0})
        return {"s": out}
    return {"m": len(obj.pin_dic) == 0}


def expected_skeleton(sk):
    if "m" in sk:
        return sk
    return {"s": [expected_skeleton(c) for c in sk["s"] if not sk_dead(c)]}


def sk_dead(sk):
    if "m" in sk:
        return sk["m"]
    return all(sk_dead(c) for c in sk["s"])


def check(ctx, clean, dirty, replay):
    sk = skeleton(dirty)
    L = impl.lk()

    def walk(s, seen):
        if id(s) in seen:
            return
        seen[id(s)] = s
        for st in s.structures:
            if st.solver is not None:
                walk(st.solver, seen)
    try:
        sol = hier.build(dirty)
        # every solver of the hierarchy gets its own default wavelength (a value the user set): pruning must not lose it
        allsol = {}
        walk(sol, allsol)
        for k, s in enumerate(allsol.values()):
            s.set_param("wl", 1.0 + 0.01 * k)
        defaults_before = {i: dict(s.default_params) for i, s in allsol.items()}
        # the emptiness tests themselves, on every solver and model of the hierarchy: a solver is empty iff it holds no structure,
        # a model iff it has no pins (Model.prune reports the same)
        for s in allsol.values():
            if bool(s.is_empty()) != (len(s.structures) == 0):
                ctx.violation("C19:is-empty", f"Solver.is_empty() = {s.is_empty()} for a solver holding {len(s.structures)} structures", replay)
                return False
            for st in s.structures:
                if st.model is not None:
                    nop = len(st.model.pin_dic) == 0
                    if bool(st.model.is_empty()) != nop or bool(st.model.prune()) != nop:
                        ctx.violation("C19:is-empty", f"Model.is_empty() / Model.prune() wrong for a model with {len(st.model.pin_dic)} pins", replay)
                        return False
        ret = sol.prune()
        left = {}
        walk(sol, left)
        for i, s in left.items():
            if dict(s.default_params) != defaults_before[i]:
                changed = sorted(set(defaults_before[i].items()) ^ set(s.default_params.items()), key=str)
                ctx.violation("C19:defaults-changed", f"prune() changed the default parameters of a surviving solver: {changed[:4]}", replay)
                return False
    except Exception as e:  # noqa
        ctx.violation(f"C19:prune-raised-{type(e).__name__}", f"prune() raised {type(e).__name__}: {str(e)[:70]}", replay)
        return False
    got = real_skeleton(sol)
    exp = expected_skeleton(sk)
    if got != exp:
        ctx.violation("C19:wrong-survivors", f"after prune the hierarchy is {got}, expected {exp}", replay)
        return False
    if bool(sol.is_empty()) != sk_dead(sk):
        ctx.violation("C19:is-empty", f"after prune() Solver.is_empty() = {sol.is_empty()}, the solver {'is' if sk_dead(sk) else 'is not'} empty", replay)
        return False
    if bool(ret) != sk_dead(sk):
        ctx.violation("C19:return-value", f"prune() returned {ret}, solver is {'dead' if sk_dead(sk) else 'not empty'}", replay)
        return False
    ans = ctx.driver.ask({"op": "prune", "tree": sk})
    if "tree" not in ans:
        ctx.disagreement("C19.model.prune", f"model: {ans}", replay)
    elif ans["tree"] != got or ans["empty"] != bool(ret):
        ctx.disagreement("C19.model.prune", "Lean prune and the implementation differ", replay)
    # the code's own criterion on the executable hierarchy: HNet.emptyRec is the return value of prune(), HNet.keepSet the
    # top-level children it keeps (C19_removed_presents_no_pin / C19_kept_set_closed / C19_kept_level_behaves are about these)
    ans_e = None
    if dirty.kind != "leaf" and hier.count_placements(dirty) <= 10:
        ans_e = ctx.driver.ask({"op": "hempty", "tree": hier.tree_json_any(dirty)})
        if "empty" not in ans_e or "keep" not in ans_e:
            ctx.disagreement("C19.model.hempty", f"model: {str(ans_e)[:80]}", replay)
            ans_e = None
        else:
            ctx.tag("model:hempty", "hempty:empty" if ans_e["empty"] else "hempty:kept")
            if bool(ans_e["empty"]) != bool(ret):
                ctx.disagreement("C19.model.hempty", f"prune() returned {ret}, HNet.emptyRec of the description is {ans_e['empty']}", replay)
            if len(ans_e["keep"]) != len(got.get("s", [])):
                ctx.disagreement("C19.model.hempty", f"prune() kept {len(got.get('s', []))} top-level placements, HNet.keepSet keeps positions {ans_e['keep']}", replay)
            if ans_e.get("wftree") and not set(ans_e["live"]) <= set(ans_e["keep"]):
                ctx.disagreement("C19.model.hempty", f"a child with pins is not kept: live {ans_e['live']}, kept {ans_e['keep']}", replay)
    if sk_dead(sk):
        return True
    # a second prune after edits *below* the top level: dead branches placed into surviving nested solvers (nothing is added
    # to the top solver itself) must go as well, and nothing else may change
    import random as _random
    rr = _random.Random(repr(sk))
    survivors = {}
    walk(sol, survivors)
    nested = [s for s in survivors.values() if s is not sol]
    if nested:
        targets = [s for s in nested if rr.random() < 0.5] or nested[:1]
        try:
            for s in targets:
                for _ in range(rr.randint(1, 2)):
                    dead = hier.build(dead_solver(rr, 1)) if rr.random() < 0.4 else L.Model()
                    s.add_structure(L.Structure(solver=dead) if isinstance(dead, L.Solver) else L.Structure(model=dead))
            ret2 = sol.prune()
        except Exception as e:  # noqa
            ctx.violation(f"C19:prune-raised-{type(e).__name__}", f"second prune() after nested edits raised {type(e).__name__}: {str(e)[:70]}", replay)
            return False
        ctx.tag("second-prune-after-nested-edit")
        got2 = real_skeleton(sol)
        if got2 != exp or bool(ret2):
            ctx.violation("C19:wrong-survivors-second-prune", f"after adding dead branches to nested solvers and pruning again the hierarchy is {got2}, "
                          f"expected {exp} (returned {ret2})", replay)
            return False
    # wiring and exposure of the survivors are intact: the pruned solver solves like the clean build
    flat = hier.flatten_desc(clean)
    names = cs.exposed_names(flat)
    Tref, cond, _, _ = gen.reference_solve(flat)
    if cond > 1e6:
        return True
    try:
        T = impl.solved_matrix(sol.solve(), names)[0]
    except Exception as e:  # noqa
        if impl.outcome_class(e) == "singular":
            return True
        ctx.violation(f"C19:solve-after-prune-{type(e).__name__}", f"solving the pruned solver raised {type(e).__name__}: {str(e)[:70]}", replay)
        return False
    # the executable model: one level of prune on the description with the dead branches (HNet.pruneLevel), solved; it answers only
    # when no dead branch sits deeper than the top level (an empty solver does not solve, in the model as in the code)
    if dirty.kind != "leaf" and hier.count_placements(dirty) <= 10:
        ans = ctx.driver.ask({"op": "hprune", "tree": hier.tree_json_any(dirty)})
        if "T" in ans and sorted(ans["pins"]) == sorted(names):
            n_ = len(names)
            o_ = [ans["pins"].index(x) for x in names]
            Tm = gen.json_mat_np([z for row in ans["T"] for z in row], n_, n_) if n_ else np.zeros((0, 0), complex)
            Tm = Tm[np.ix_(o_, o_)] if n_ else Tm
            ctx.tag("model:hprune", "hyp:WFTree" if ans.get("wftree") else "hyp:outside:WFTree")
            if Tm.size and float(np.max(np.abs(Tm - T))) > 1e-9 * max(1.0, cond):
                ctx.disagreement("C19.model.hprune", "the model's solve of the pruned level differs from the code's solve after prune()", replay)
        elif "kept" in ans:
            ctx.tag("model:hprune-not-solvable-one-level")
        else:
            ctx.disagreement("C19.model.hprune", f"model: {str(ans)[:80]}", replay)
    if ans_e is not None and "T" in ans_e:
        if sorted(ans_e["pins"]) != sorted(names):
            ctx.disagreement("C19.model.hempty", f"the level the model keeps exposes {sorted(ans_e['pins'])}, the pruned solver {sorted(names)}", replay)
        elif names:
            o_ = [ans_e["pins"].index(x) for x in names]
            Tk = gen.json_mat_np([z for row in ans_e["T"] for z in row], len(names), len(names))[np.ix_(o_, o_)]
            ctx.tag("model:hempty-solved")
            if float(np.max(np.abs(Tk - T))) > 1e-9 * max(1.0, cond):
                ctx.disagreement("C19.model.hempty", "the model's solve of the level prune() keeps differs from the code's solve after prune()", replay)
    err = float(np.max(np.abs(T - Tref))) if T.size else 0.0
    if err > 1e-9 * max(1.0, cond):
        ctx.violation("C19:matrix-changed", f"pruned solver differs from the clean build by {err:.3e}", replay)
        return False
    return True


def run(ctx):
    rng = ctx.subrng("c19")
    n = ctx.budget(400, 3000)
    maxd = 4 if ctx.tier == "quick" else 6
    for i in range(n):
        if ctx.time_left() < 0:
            break
        if rng.random() < 0.08:
            clean = hier.Node()
            dirty = dead_solver(rng, 3)
        else:
            clean = hier.gen_node(rng, rng.randint(1, maxd), [0, 0])
            dirty = insert_dead(rng, clean)
        sk = skeleton(dirty)
        replay = {"clean": hier.describe(clean), "dirty": hier.describe(dirty)}
        has_dead = "true" in str(sk).lower() or '"s": []' in str(sk).replace("'", '"')
        ctx.case(sk, nontrivial=has_dead and not sk_dead(sk), tags=[f"depth:{hier.depth(dirty)}", "all-dead" if sk_dead(sk) else "mixed"],
                 sample=sk if i < 2 else None)
        check(ctx, clean, dirty, replay)


def replay(ctx, data):
    check(ctx, hier.undescribe(data["clean"]), hier.undescribe(data["dirty"]), data)
    if ctx.violations:
        return False, ctx.violations[0]["what"]
    return True, "prune removed exactly the dead branches"
