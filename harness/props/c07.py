"""C07 — after any edit history the solver equals a freshly built one.
Random histories over {add, re-add a cut structure, connect, cut, remove, prune, expose, raise all, solve}; after every
step the three redundant solver views and the per-structure tables are compared with the reference account, and
every solve with a numpy solve of the equivalent fresh circuit."""
from __future__ import annotations

import numpy as np

import gen
import impl
import wiring

RULE = ("random histories of 4-12 (thorough up to 30) operations on 3-5 components with 2-3 ports over "
        "{add, re-add a structure that was cut, connect two free pins, cut_structure, remove_structure, map a pin, "
        "raise all pins, prune (some placed models have no pins), solve}; operations whose precondition fails in the reference state are skipped, so every "
        "executed call is valid; distinct = distinct executed history; non-trivial = contains a cut or remove "
        "followed by a further operation")
TRUSTED = ["the reference account of the wiring state (harness/wiring.py, 90 lines)", "numpy reference solve"]
ASSUMPTIONS = ["exposed pins are free pins whenever the history solves (as the property states)"]
EXPLANATION = "wiring invariant preserved by every operation (Lean), compared step by step with the real solver"


def gen_history(rng, ncomp, nops):
    ops = []
    for c in range(rng.randint(2, ncomp)):
        ops.append(("add", c))
    kinds = ["connect"] * 5 + ["put"] * 2 + ["cut"] * 2 + ["remove"] * 1 + ["readd"] * 2 + ["add"] * 2 + ["map"] * 1 + ["raise"] * 3 + ["solve"] * 2 + ["prune"] * 1
    pairs = []
    for _ in range(nops):
        k = rng.choice(kinds)
        if k in ("add", "cut", "remove", "readd"):
            ops.append((k, rng.randrange(ncomp)))
        elif k == "connect":
            # bias towards several links between the same two structures
            if pairs and rng.random() < 0.45:
                a, b = rng.choice(pairs)
            else:
                a, b = rng.randrange(ncomp), rng.randrange(ncomp)
                pairs.append((a, b))
            ops.append((k, a, rng.randrange(4), b, rng.randrange(4)))
        elif k in ("map", "put"):
            ops.append((k, rng.randrange(ncomp), rng.randrange(3)))
        else:
            ops.append((k,))
    if ncomp >= 3 and rng.random() < 0.2:
        # a hub: one structure linked to two or three *different* neighbours, then removed (or cut); the neighbours are touched afterwards
        h, *others = rng.sample(range(ncomp), min(ncomp, rng.randint(3, 4)))
        for o in [h] + others:
            ops.append(("add", o))
        for k, o in enumerate(others):
            ops.append(("connect", h, k, o, rng.randrange(3)))
        ops.append((rng.choice(["remove", "remove", "cut"]), h))
        for o in others:
            ops.append((rng.choice(["cut", "remove", "connect", "solve"]), o) if rng.random() < 0.6 else ("solve",))
        ops = [op if op[0] != "connect" or len(op) == 5 else ("connect", op[1], rng.randrange(3), others[0], rng.randrange(3)) for op in ops]
        if rng.random() < 0.5:
            ops.append(("readd", h))
    ops.append(("raise",))
    ops.append(("solve",))
    return ops


def run_history(ctx, comps, ops, replay, stop_sig=None):
    """executes the applicable ops on the real solver and the reference; reports the first problem.
    returns the signature of the problem found (or None)"""
    L = impl.lk()
    comps = [dict(c) for c in comps]          # put() appends the components it places
    spec = wiring.Spec(comps)
    real = wiring.Real(comps)
    added_ever = set()
    executed = []
    snaps = []
    solves = []
    mapcount = 0

    def fail(sig, msg):
        r = dict(replay)
        r["executed"] = executed
        ctx.violation(sig, msg + f" (after {executed[-1] if executed else 'start'})", r)
        return sig

    for op in ops:
        k = op[0]
        try:
            if k == "add":
                c = op[1]
                if c in added_ever:
                    continue
                executed.append(op)
                real.sol.add_structure(real.sts[c])
                spec.add(c)
                added_ever.add(c)
            elif k == "readd":
                c = op[1]
                if c not in spec.was_cut or c in spec.present:
                    continue
                executed.append(op)
                real.sol.add_structure(real.sts[c])
                spec.add(c)
            elif k == "connect":
                _, a, i, b, j = op
                if a == b or a not in spec.present or b not in spec.present:
                    continue
                if i >= len(comps[a]["pins"]) or j >= len(comps[b]["pins"]):
                    continue
                p, q = comps[a]["pins"][i], comps[b]["pins"][j]
                free = spec.free()
                mapped = set(spec.mapping.values())
                if (a, p) not in free or (b, q) not in free:
                    continue
                # connecting a pin that is exposed leaves a stale exposure behind (allowed: only at solve time must
                # the exposed pins be free); taken for three quarters of such draws
                if ((a, p) in mapped or (b, q) in mapped) and (i + j + len(executed)) % 4 == 0:
                    continue
                executed.append(("connect", a, p, b, q))
                real.sol.connect(real.sts[a], p, real.sts[b], q)
                spec.connect(a, p, b, q)
            elif k == "put":
                # a fresh two-port placed with put(): add + connect in one call, onto a free pin of a present structure
                _, c, i = op
                if c not in spec.present or i >= len(comps[c]["pins"]) or len(comps) >= 8:
                    continue
                p = comps[c]["pins"][i]
                if (c, p) not in spec.free() or (c, p) in spec.mapping.values():
                    continue
                newc = len(comps)
                import random as _random
                S2 = gen.contractive(_random.Random(newc * 7919 + i * 31 + len(executed)), 2)
                comps.append({"pins": [f"u{newc}", f"v{newc}"], "idx": [0, 1], "S": S2})
                m = L.Model(pin_dic={L.Pin(f"u{newc}"): 0, L.Pin(f"v{newc}"): 1}, Smatrix=gen.mat_np(S2, 2, 2))
                executed.append(("put", newc, f"u{newc}", c, p))
                with real.sol:
                    st = m.put(f"u{newc}", (real.sts[c], p))
                real.sts.append(st)
                spec.pins[newc] = [f"u{newc}", f"v{newc}"]
                spec.add(newc)
                spec.connect(newc, f"u{newc}", c, p)
                added_ever.add(newc)
            elif k == "cut":
                c = op[1]
                if c not in spec.present:
                    continue
                executed.append(op)
                real.sol.cut_structure(real.sts[c])
                spec.cut(c)
            elif k == "remove":
                c = op[1]
                if c not in spec.present:
                    continue
                executed.append(op)
                real.sol.remove_structure(real.sts[c])
                spec.remove(c)
            elif k == "map":
                _, c, i = op
                if c not in spec.present or i >= len(comps[c]["pins"]):
                    continue
                p = comps[c]["pins"][i]
                if (c, p) not in spec.free() or (c, p) in spec.mapping.values():
                    continue
                mapcount += 1
                nm = f"M{mapcount}"
                executed.append(("map", nm, c, p))
                real.sol.map_pins({L.Pin(nm): (real.sts[c], L.Pin(p))})
                spec.mapping[nm] = (c, p)
            elif k == "prune":
                gone, empty = spec.prune()
                executed.append(("prune", gone))
                ret = real.sol.prune()
                if bool(ret) != empty:
                    return fail("C07:prune-return", f"prune() returned {ret}, the solver {'is' if empty else 'is not'} empty afterwards")
            elif k == "raise":
                executed.append(op)
                ok = spec.raise_all()
                try:
                    real.sol.maps_all_pins()
                    if not ok:
                        return fail("C07:raise-accepts-clash", "maps_all_pins accepted a name clash")
                except Exception:
                    if ok:
                        raise
                    # a clash leaves the real mapping partially extended: mirror what is there if consistent
                    pm = {n.name: (real.sid(t[0]), t[1].name) for n, t in real.sol.pin_mapping.items()}
                    spec.mapping = pm
            elif k == "solve":
                if not spec.present:
                    continue
                if any(t not in spec.free() for t in spec.mapping.values()):
                    continue                    # a stale exposure is connected: outside the property's histories
                executed.append(op)
                real.last_solve = None
                ok, msg = wiring.solve_and_compare(real, spec)
                if ok and real.last_solve is not None:
                    solves.append((len(executed) - 1,) + real.last_solve)
                if not ok:
                    return fail("C07:solve-differs" if "differs" in msg else "C07:solve-raised", msg)
        except Exception as e:  # noqa
            kind = executed[-1][0] if executed else "?"
            sig = f"C07:{kind}-raised-{type(e).__name__}"
            if kind == "connect" and any(o[0] == "readd" for o in executed):
                sig = "C07:cut-keeps-table"
            return fail(sig, f"valid operation {executed[-1]} raised {type(e).__name__}: {str(e)[:60]}")
        while len(snaps) < len(executed):
            snaps.append(None)
        if executed:
            snaps[len(executed) - 1] = real.snapshot()
        bad = wiring.consistency(real, spec)
        if bad:
            kind = executed[-1][0] if executed else "?"
            suffix, msg = bad[0]
            return fail(f"C07:inconsistent:{suffix}:after-{kind}", msg)
    if ctx._driver is not None or stop_sig is None:
        try:
            wiring.model_compare(ctx, comps, executed, snaps, "C07.model.wiring", dict(replay, executed=executed))
            wiring.model_solve_compare(ctx, comps, executed, solves, "C07.model.wiring-solve", dict(replay, executed=executed))
        except Exception as e:  # noqa
            ctx.disagreement("C07.model.wiring", f"model comparison failed: {type(e).__name__}: {e}", replay)
    return None


def make_comps(rng, ncomp, pinless=False):
    comps = []
    for c in range(ncomp):
        n = 0 if (pinless and c >= 2 and rng.random() < 0.25) else rng.randint(2, 4)      # some placed models have no pins at all
        comps.append({"pins": [f"c{c}p{i}" for i in range(n)], "idx": rng.sample(range(n), n), "S": gen.contractive(rng, n)})
    return comps


def comps_json(comps):
    return [{"pins": c["pins"], "idx": c["idx"], "S": gen.mat_json(c["S"])} for c in comps]


def comps_from_json(j):
    return gen.circuit_from_json({"comps": j, "links": [], "exposed": []})["comps"]


def shrink(ctx, comps, ops, sig):
    cur = list(ops)
    i = len(cur) - 1
    while i >= 0:
        cand = cur[:i] + cur[i + 1:]
        sub = type(ctx)(ctx.pid, ctx.tier, ctx.seed)
        try:
            got = run_history(sub, comps, cand, {})
        except Exception:
            got = None
        if got == sig:
            cur = cand
        i -= 1
    return cur


def run(ctx):
    rng = ctx.subrng("c07")
    n = ctx.budget(900, 4000)
    maxops = 12 if ctx.tier == "quick" else 30
    for i in range(n):
        if ctx.time_left() < 0:
            break
        ncomp = rng.randint(3, 5)
        comps = make_comps(rng, ncomp, pinless=True)
        ops = gen_history(rng, ncomp, rng.randint(4, maxops))
        replay = {"comps": comps_json(comps), "ops": [list(o) for o in ops]}
        nt = any(o[0] in ("cut", "remove") for o in ops[:-2])
        ctx.case(replay["ops"], nontrivial=nt, tags=[f"ops:{min(len(ops) // 5 * 5, 30)}"] + sorted({f"has:{o[0]}" for o in ops}) + (["multi-link-ops"] if len({(min(o[1], o[3]), max(o[1], o[3])) for o in ops if o[0] == "connect"}) < sum(1 for o in ops if o[0] == "connect") else []),
                 sample=replay["ops"] if i < 2 else None)
        before = len(ctx.violations)
        sig = run_history(ctx, comps, ops, replay)
        if sig and len(ctx.violations) > before:
            small = shrink(ctx, comps, ops, sig)
            v = ctx.violations[-1]
            v["replay"] = {"comps": comps_json(comps), "ops": [list(o) for o in small]}


def replay(ctx, data):
    comps = comps_from_json(data["comps"])
    ops = [tuple(o) for o in data["ops"]]
    run_history(ctx, comps, ops, data)
    if ctx.violations:
        return False, ctx.violations[0]["what"]
    return True, "history behaves like a freshly built solver"
