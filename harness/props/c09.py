"""C09 — library blocks implement their documented physics; uniform model interface.
Oracle: the documented closed forms evaluated independently; unitarity / passivity / power-reciprocity /
reflection-freedom of the real matrix; every block placed and wired by pin name, solved and printed with
int / float / numpy-typed arguments."""
from __future__ import annotations

import contextlib
import io

import numpy as np

import impl

RULE = ("16 documented block classes (12 with the closed forms the property states, 4 with the generic claims only) x random constructor arguments and solve-time parameters in their physical range "
        "(40 draws per block, thorough 1000; every second draw re-evaluates the same instance at 1-3 further points, one parameter changed or dropped at a time; user index functions depend on every parameter they are given), argument types drawn from {int, float, numpy.float64, numpy.int64} where an "
        "integer value is physical; per draw: closed form, unitarity or passivity, power reciprocity, documented zero "
        "entries; per block and argument type: put()/connect by pin name, solve inside a solver, str(), print_S(), "
        "show_free_pins(), inspect(); distinct = (block, arguments); non-trivial = every case")
TRUSTED = ["numpy exp/sqrt/cos/sin/abs/angle vs the real functions",
           "translators blocks.py / symtrace.py (symbolic execution of the block classes) and tables.py + probes.py (interface facts observed on instances)"]
ASSUMPTIONS = ["user-supplied index functions (UserWaveguide, TH_PhaseShifter) are arbitrary real functions: theorems take them as parameters"]
EXPLANATION = "closed forms as Lean theorems over ℝ/ℂ for the definitions regenerated from model.py; interface facts from generated tables"

TOL = 1e-12


def typed(rng, v, integer_ok):
    """cast a value to one of the numeric types a user might pass"""
    kinds = ["float", "np.float64"] + (["int", "np.int64"] if integer_ok and float(v).is_integer() else [])
    k = rng.choice(kinds)
    if k == "float":
        return float(v), k
    if k == "np.float64":
        return np.float64(v), k
    if k == "int":
        return int(v), k
    return np.int64(int(v)), k


def pick(rng, lo, hi, p_int=0.35):
    if rng.random() < p_int:
        a, b = int(np.ceil(lo)), int(np.floor(hi))
        if a <= b:
            return float(rng.randint(a, b))
    return rng.uniform(lo, hi)


MODESETS = [{"TE0": {"pol": 0}, "TE1": {"pol": 0, "order": 1}, "TM0": {"pol": 1}}, {"TM": {"pol": 1, "order": 2}, "TE": {}},
            {"A": {}, "B": {"order": 1}, "C": {"pol": 1}}]


def blocks():
    L = impl.lk()

    def neff(wl, R=None, w=None, pol=None, **kw):
        return 2.0 + 0.1 * wl + 0.003 * float(R) + 0.2 * float(w) + 0.05 * float(pol)

    def uidx(wl, T=0.0, **kw):
        return 1.5 + 0.01 * wl + 0.02 * float(T)
    B = {}
    # name: (make(args)->model, argspec {name:(lo,hi)}, paramspec, expected(args, params)->dict of checks)
    B["Waveguide"] = dict(
        make=lambda a: L.Waveguide(L=a["L"], n=a["n"], wl=a["wl"]), args={"L": (0, 50), "n": (1, 4), "wl": (1, 2)}, params={"wl": (1, 2)},
        expect=lambda a, p: {"entries": {(0, 1): np.exp(2j * np.pi * complex(a["n"]) * float(a["L"]) / float(p.get("wl", a["wl"]))),
                                         (1, 0): np.exp(2j * np.pi * complex(a["n"]) * float(a["L"]) / float(p.get("wl", a["wl"]))),
                                         (0, 0): 0, (1, 1): 0},
                             # a complex index (documented: "n (float or complex)") describes a lossy guide: passive, not lossless
                             **({"unitary": True} if complex(a["n"]).imag == 0 else {"passive": True})})
    B["UserWaveguide"] = dict(
        make=lambda a: L.UserWaveguide(L=a["L"], func=uidx, param_dic={"wl": a["wl"], "T": a["T"]}), args={"L": (0, 50), "wl": (1, 2), "T": (-3, 3)},
        params={"wl": (1, 2), "T": (-3, 3)},
        expect=lambda a, p: {"entries": {(0, 1): np.exp(2j * np.pi * uidx(float(p.get("wl", a["wl"])), float(p.get("T", a["T"]))) * float(a["L"]) / float(p.get("wl", a["wl"]))),
                                         (0, 0): 0, (1, 1): 0}, "unitary": True})
    B["BeamSplitter"] = dict(
        make=lambda a: L.BeamSplitter(ratio=a["ratio"], phase=a["phase"]), args={"ratio": (0, 1), "phase": (0, 1)}, params={},
        expect=lambda a, p: {"power": {(0, 2): 1 - float(a["ratio"]), (1, 3): 1 - float(a["ratio"]), (0, 3): float(a["ratio"]), (1, 2): float(a["ratio"]),
                                       (0, 0): 0, (0, 1): 0, (1, 1): 0, (2, 2): 0, (2, 3): 0, (3, 3): 0}, "unitary": True})
    B["Splitter1x2"] = dict(make=lambda a: L.Splitter1x2(), args={}, params={},
                            expect=lambda a, p: {"power": {(1, 0): 0.5, (2, 0): 0.5, (0, 0): 0}, "passive": True})
    B["PhaseShifter"] = dict(
        make=lambda a: L.PhaseShifter(param_default=a["d"]), args={"d": (-1, 1)}, params={"PS": (-2, 2)},
        expect=lambda a, p: {"entries": {(0, 1): np.exp(1j * np.pi * float(p.get("PS", a["d"]))), (1, 0): np.exp(1j * np.pi * float(p.get("PS", a["d"]))),
                                         (0, 0): 0, (1, 1): 0}, "unitary": True})
    B["PushPullPhaseShifter"] = dict(
        make=lambda a: L.PushPullPhaseShifter(), args={}, params={"PS": (-2, 2)},
        expect=lambda a, p: {"entries": {(0, 1): np.exp(0.5j * np.pi * float(p.get("PS", 0.0))), (2, 3): np.exp(-0.5j * np.pi * float(p.get("PS", 0.0))),
                                         (3, 2): np.exp(-0.5j * np.pi * float(p.get("PS", 0.0))), (0, 0): 0, (0, 2): 0, (1, 3): 0}, "unitary": True})
    B["PolRot"] = dict(
        make=lambda a: L.PolRot(angle=a["angle"]) if a["fixed"] else L.PolRot(), args={"angle": (-1, 1), "fixed": (0, 1)}, params={"angle": (-1, 1)},
        expect=lambda a, p: (lambda th: {"entries": {(0, 2): np.cos(np.pi * th), (0, 3): np.sin(np.pi * th), (1, 2): -np.sin(np.pi * th), (1, 3): np.cos(np.pi * th),
                                                     (2, 0): np.cos(np.pi * th), (2, 1): -np.sin(np.pi * th), (3, 0): np.sin(np.pi * th), (3, 1): np.cos(np.pi * th),
                                                     (0, 0): 0, (0, 1): 0}, "unitary": True})(float(a["angle"]) if a["fixed"] else float(p.get("angle", 0.0))))
    B["Attenuator"] = dict(make=lambda a: L.Attenuator(loss=a["loss"]), args={"loss": (0, 30)}, params={},
                           expect=lambda a, p: {"power": {(0, 1): 10 ** (-float(a["loss"]) / 10), (1, 0): 10 ** (-float(a["loss"]) / 10), (0, 0): 0, (1, 1): 0}, "passive": True})
    B["LinearAttenuator"] = dict(make=lambda a: L.LinearAttenuator(c=a["c"]), args={"c": (0, 1)}, params={},
                                 expect=lambda a, p: {"power": {(0, 1): float(a["c"]), (1, 0): float(a["c"]), (0, 0): 0, (1, 1): 0}, "passive": True})
    B["Mirror"] = dict(make=lambda a: L.Mirror(ref=a["ref"], phase=a["phase"]), args={"ref": (0, 1), "phase": (-1, 1)}, params={},
                       expect=lambda a, p: {"power": {(0, 0): float(a["ref"]), (1, 1): float(a["ref"]), (0, 1): 1 - float(a["ref"]), (1, 0): 1 - float(a["ref"])}, "unitary": True})
    B["PerfectMirror"] = dict(make=lambda a: L.PerfectMirror(phase=a["phase"]), args={"phase": (-1, 1)}, params={},
                              expect=lambda a, p: {"entries": {(0, 0): np.exp(1j * np.pi * float(a["phase"]))}, "unitary": True})
    B["TH_PhaseShifter"] = dict(
        make=lambda a: L.TH_PhaseShifter(L=a["L"], Neff=neff, R=a["R"], w=a["w"], wl=a["wl"], pol=0),
        args={"L": (0, 50), "wl": (1, 2), "R": (5, 50), "w": (0.5, 2)}, params={"wl": (1, 2), "PS": (-2, 2), "R": (5, 50), "w": (0.5, 2), "pol": (0, 1)},
        expect=lambda a, p: (lambda wl: {"entries": {(0, 1): np.exp(1j * np.pi * (2 * neff(wl, p.get("R", a["R"]), p.get("w", a["w"]), p.get("pol", 0)) * float(a["L"]) / wl
                                                                                  + float(p.get("PS", 0.0)))), (0, 0): 0, (1, 1): 0},
                                         "unitary": True})(float(p.get("wl", a["wl"]))))
    # multi-mode user waveguide whose modes carry *different* sets of extra settings (each mode sees only its own extras,
    # missing ones fall back to the index function's defaults); modes listed sparse-last and sparse-first
    def midx(wl, T=0.0, pol=0, order=0, **kw):
        return 1.5 + 0.01 * wl + 0.02 * float(T) + 0.1 * pol + 0.03 * order

    def uw_multi_expect(a, p):
        ms = MODESETS[int(a["modeset"])]
        wl, T = float(p.get("wl", a["wl"])), float(p.get("T", a["T"]))
        ent = {}
        for i, (mode, extra) in enumerate(ms.items()):
            ph = np.exp(2j * np.pi * midx(wl, T, **extra) * float(a["L"]) / wl)
            ent[(2 * i, 2 * i + 1)] = ph
            ent[(2 * i + 1, 2 * i)] = ph
            ent[(2 * i, 2 * i)] = 0
            for j in range(2 * len(ms)):
                if j // 2 != i:
                    ent[(2 * i, j)] = 0                     # no coupling between modes
        return {"entries": ent, "unitary": True}
    B["UserWaveguide:multimode"] = dict(
        make=lambda a: L.UserWaveguide(L=a["L"], func=midx, param_dic={"wl": a["wl"], "T": a["T"]}, allowedmodes={k: dict(v) for k, v in MODESETS[int(a["modeset"])].items()}),
        args={"L": (0, 50), "wl": (1, 2), "T": (-3, 3), "modeset": (0, 2)}, params={"wl": (1, 2), "T": (-3, 3)}, expect=uw_multi_expect)
    # documented models without a stated closed form in the property: generic claims only (power-reciprocal,
    # reflection-free as documented; no gain where the model does not depend on a geometry) plus the uniform interface.
    # FPR / FPRGaussian normalise by 1/sqrt(max(n, m)) and conserve power only near the star-coupler design condition
    # of their geometry: whether a given (R, d1, d2, w) is "in the physical range" is not documented, so no gain claim.
    B["Splitter1x2Gen"] = dict(make=lambda a: L.Splitter1x2Gen(cross=a["cross"], phase=a["phase"]), args={"cross": (0, 0.5), "phase": (-1, 1)}, params={},
                               expect=lambda a, p: {"power": {(0, 1): 0.5 - float(a["cross"]), (0, 2): 0.5 - float(a["cross"]), (1, 2): float(a["cross"]),
                                                              (2, 1): float(a["cross"]), (0, 0): 0, (1, 1): 0, (2, 2): 0}, "passive": True})
    B["FPR_NxM"] = dict(make=lambda a: L.FPR_NxM(int(a["N"]), int(a["M"]), phi=a["phi"]), args={"N": (1, 4), "M": (1, 4), "phi": (0, 0.5)}, params={},
                        expect=lambda a, p: {"power": {(0, 0): 0}, "passive": True})
    B["FPR"] = dict(make=lambda a: L.FPR(int(a["N"]), int(a["M"]), a["R"], a["d1"], a["d1"]), args={"N": (1, 4), "M": (1, 4), "R": (50, 200), "d1": (1, 3)},
                    params={"wl": (1, 2)}, required=("wl",), expect=lambda a, p: {"power": {(0, 0): 0}})
    B["FPRGaussian"] = dict(make=lambda a: L.FPRGaussian(int(a["N"]), int(a["M"]), a["R"], a["d1"], a["d1"], a["w1"], a["w1"], 3.2),
                            args={"N": (1, 4), "M": (1, 4), "R": (50, 200), "d1": (2, 4), "w1": (0.5, 1.5)}, params={"wl": (1, 2)}, required=("wl",),
                            expect=lambda a, p: {"power": {(0, 0): 0}})
    return B


INT_ONLY = {"N", "M", "modeset"}
COMPLEX_OK = {"n"}            # arguments documented as "float or complex"
INT_OK = {"L", "n", "wl", "ratio", "phase", "d", "angle", "loss", "c", "ref", "PS", "R", "w", "T", "pol"}


def check_physics(ctx, name, spec, a, p, replay, history=()):
    """one instance, evaluated at `p` and then at every point of `history` (the block's answer must not depend on
    what the same instance was asked before)"""
    try:
        m = spec["make"](a)
    except Exception as e:  # noqa
        ctx.violation(f"C09:solve-raised:{name}", f"{name}{sorted((k, type(v).__name__) for k, v in a.items())} raised {type(e).__name__}: {str(e)[:60]}", replay)
        return False
    for k, q in enumerate([p] + list(history)):
        if not check_point(ctx, name, spec, m, a, q, replay, k):
            return False
    return True


# documented pins of the blocks, in the order of the matrix rows the expectations are written in: the physics is a statement about
# *pins* ("from a0 to b0"), so the matrix is read through the pin table of the solved model, never by raw position
DOC_PINS = {"Waveguide": ["a0", "b0"], "UserWaveguide": ["a0", "b0"], "BeamSplitter": ["a0", "a1", "b0", "b1"], "Splitter1x2": ["a0", "b0", "b1"],
            "PhaseShifter": ["a0", "b0"], "PushPullPhaseShifter": ["a0", "b0", "a1", "b1"],
            "PolRot": ["a0_pol0", "a0_pol1", "b0_pol0", "b0_pol1"], "Attenuator": ["a0", "b0"], "LinearAttenuator": ["a0", "b0"],
            "Mirror": ["a0", "b0"], "PerfectMirror": ["a0"], "TH_PhaseShifter": ["a0", "b0"], "Splitter1x2Gen": ["a0", "b0", "b1"]}


def check_point(ctx, name, spec, m, a, p, replay, k):
    try:
        res = m.solve(**p)
        S = np.array(res.S)[0]
        doc = DOC_PINS.get(name.split(":")[0]) if ":" not in name else None
        if name == "UserWaveguide:multimode":
            doc = [f"{b}_{mode}" for mode in MODESETS[int(a["modeset"])] for b in ("a0", "b0")]
        if doc is None and sorted(res.pin_dic.values()) != list(range(S.shape[0])):
            ctx.violation(f"C09:pins:{name}", f"{name}: the pins do not sit on distinct rows of the {S.shape[0]}-port matrix: {sorted(res.pin_dic.values())}", replay)
            return False
        if doc is not None:
            if sorted(q.name for q in res.pin_dic) != sorted(doc) or sorted(res.pin_dic.values()) != list(range(len(doc))):
                ctx.violation(f"C09:pins:{name}", f"{name}: pins {sorted((q.name, i) for q, i in res.pin_dic.items())}, documented {doc} on distinct matrix rows", replay)
                return False
            S = np.array([[res.get_A(x, y) for y in doc] for x in doc])
    except Exception as e:  # noqa
        ctx.violation(f"C09:solve-raised:{name}", f"{name}{sorted((k, type(v).__name__) for k, v in a.items())} raised {type(e).__name__}: {str(e)[:60]}", replay)
        return False
    ex = spec["expect"](a, p)
    base = name
    if k:
        name = name + ":re-evaluated"
    ok = True
    for (i, j), v in ex.get("entries", {}).items():
        if abs(S[i, j] - v) > 1e-9:
            ctx.violation(f"C09:closed-form:{name}", f"{name}: S[{i},{j}] = {S[i, j]:.6f}, documented value {complex(v):.6f} (args {a}, params {p})", replay)
            return False
    for (i, j), v in ex.get("power", {}).items():
        if abs(abs(S[i, j]) ** 2 - v) > 1e-9:
            ctx.violation(f"C09:power-ratio:{name}", f"{name}: |S[{i},{j}]|^2 = {abs(S[i, j]) ** 2:.6f}, documented {v:.6f} (args {a})", replay)
            return False
    n = S.shape[0]
    if ex.get("unitary") and np.max(np.abs(S.conj().T @ S - np.eye(n))) > 1e-9:
        ctx.violation(f"C09:not-unitary:{name}", f"{name} is documented lossless but S^H S != 1 (args {a}, params {p})", replay)
        return False
    # the generic claims are reported independently of each other (signature = claim and block, whatever the evaluation number)
    if ex.get("passive") and np.linalg.norm(S, 2) > 1 + 1e-9:
        ctx.violation(f"C09:gain:{base}", f"{base} shows gain: largest singular value {np.linalg.norm(S, 2):.4f} (args {a}, params {p})", replay)
        ok = False
    if np.max(np.abs(np.abs(S) - np.abs(S.T))) > 1e-9:
        ctx.violation(f"C09:not-power-reciprocal:{base}", f"{base}: |S| != |S^T| (args {a})", replay)
        ok = False
    return ok


def check_interface(ctx, name, spec, a, replay):
    """place and wire by pin name, solve, print — whatever numeric types the arguments have.
    Every stage is tried on its own so that each failing helper is reported under its own signature."""
    L = impl.lk()
    tys = sorted((k, type(v).__name__) for k, v in a.items())
    ok = True

    def stage(label, sig, fn):
        nonlocal ok
        sink = io.StringIO()
        try:
            with contextlib.redirect_stdout(sink):
                fn()
        except Exception as e:  # noqa
            ctx.violation(sig, f"{name}{tys}: {label} raised {type(e).__name__}: {str(e)[:70]}", replay)
            ok = False

    try:
        m = spec["make"](a)
    except Exception as e:  # noqa
        ctx.violation(f"C09:construct:{name}", f"{name}{tys}: constructor raised {type(e).__name__}", replay)
        return False
    names = [p.name for p in m.pin_dic]
    stage("str()", f"C09:str:{name}", lambda: str(m))

    def table():
        if set(m.pin.keys()) != set(names):
            raise KeyError("name table does not list the pins")
    stage("pin name table", f"C09:no-pin-table:{name}", table)

    def place():
        sol = L.Solver()
        with sol:
            other = L.Model(pin_dic={L.Pin("x"): 0, L.Pin("y"): 1}, Smatrix=np.array([[0, 1], [1, 0]], complex))
            ost = other.put()
            st = m.put(names[0], (ost, "x"))          # placed and wired by pin *name*
            L.putpin("OUT", (ost, "y"))
            for k, nm in enumerate(names[1:]):
                L.putpin(f"P{k}", st.pin[nm])
        kw = {"wl": 1.55} if name in ("Waveguide", "UserWaveguide", "TH_PhaseShifter", "FPR", "FPRGaussian") else {}
        sol.solve(**kw)
        sol.inspect()
    stage("put()/connect by pin name + solve in a solver", f"C09:place-and-solve:{name}", place)
    stage("print_S()", "C09:print-helper:print_S", lambda: m.print_S())
    stage("show_free_pins()", "C09:print-helper:show_free_pins", lambda: m.show_free_pins())
    stage("inspect()", "C09:print-helper:inspect", lambda: m.inspect())
    return ok


def draw(rng, spec, all_int=False):
    a, tys = {}, {}
    for k, (lo, hi) in spec["args"].items():
        if k == "fixed":
            a[k] = rng.random() < 0.5
            continue
        if k in INT_ONLY:
            a[k], tys[k] = rng.randint(int(lo), int(hi)), "int"
            continue
        v = pick(rng, lo, hi, p_int=1.0 if all_int else 0.35)
        if k in COMPLEX_OK and not all_int and rng.random() < 0.3:
            z = complex(v, rng.choice([0.0, rng.uniform(0.0, 0.01)]))       # absorption: imaginary part >= 0
            a[k], tys[k] = (z, "complex") if rng.random() < 0.5 else (np.complex128(z), "np.complex128")
            continue
        a[k], tys[k] = typed(rng, v, k in INT_OK)
    p = {}
    for k, (lo, hi) in spec["params"].items():
        if k in spec.get("required", ()) or rng.random() < 0.6:
            v = pick(rng, lo, hi)
            p[k], _ = typed(rng, v, True)
    return a, p, tys


def draw_history(rng, spec, p):
    """further parameter points for the same instance: mostly one parameter changed at a time, sometimes dropped"""
    hist, cur = [], dict(p)
    if not spec["params"]:
        return hist
    for _ in range(rng.randint(1, 3)):
        q = dict(cur)
        k = rng.choice(sorted(spec["params"]))
        if k in q and k not in spec.get("required", ()) and rng.random() < 0.25:
            del q[k]                                   # back to the block's own default
        else:
            lo, hi = spec["params"][k]
            q[k], _ = typed(rng, pick(rng, lo, hi), True)
        hist.append(q)
        cur = q
    return hist


def trace_monitor(ctx, rng):
    """the translator of `Generated/Blocks.lean` against the running code: the expression trees obtained by executing the
    block classes symbolically, evaluated numerically, must be the matrices the real classes return (real numpy)"""
    from translate import blocks as tb
    from common import REPO
    try:
        traced = tb.trace_all(str(REPO))
    except Exception as e:  # noqa  (already reported as a broken obligation by the Lean stage)
        ctx.notes.append(f"block tracer: {type(e).__name__}: {str(e)[:200]}")
        return
    n = ctx.budget(12, 200)
    for name, (args, desc, mat, _pins) in traced.items():
        for i in range(n):
            env = {}
            for a in args:
                lo, hi = tb.RANGES[a]
                env[a] = pick(rng, lo, hi, p_int=0.25)
            rep = {"kind": "trace", "block": name, "env": env}
            ctx.case(rep, tags=[f"traced:{name}"])
            try:
                want = np.array(tb.eval_block(mat, env))
                got = tb.real_block(str(REPO), name, env)
            except Exception as e:  # noqa
                ctx.disagreement("C09.translator.blocks", f"{name} ({desc}) at {env}: {type(e).__name__}: {str(e)[:80]}", rep)
                break
            if got.shape != want.shape or np.max(np.abs(got - want)) > 1e-10:
                ctx.disagreement("C09.translator.blocks", f"{name} ({desc}) at {env}: traced expression and running code differ by "
                                 f"{np.max(np.abs(got - want)) if got.shape == want.shape else 'shape'}", rep)
                break


def run(ctx):
    rng = ctx.subrng("c09")
    B = blocks()
    trace_monitor(ctx, ctx.subrng("c09-trace"))
    n = ctx.budget(40, 1000)
    for name, spec in B.items():
        for i in range(n if name not in ("FPRGaussian", "FPR") else max(8, n // 5)):
            if ctx.time_left() < 0:
                return
            a, p, tys = draw(rng, spec, all_int=(i % 5 == 0))
            hist = draw_history(rng, spec, p) if i % 2 else []
            def ser(v):
                if isinstance(v, bool):
                    return v
                if isinstance(v, (complex, np.complexfloating)):
                    return [float(v.real), float(v.imag)]
                return float(v)
            rep = {"block": name, "args": {k: [ser(v), type(v).__name__] for k, v in a.items()},
                   "params": {k: [float(v), type(v).__name__] for k, v in p.items()},
                   "history": [{k: [float(v), type(v).__name__] for k, v in q.items()} for q in hist]}
            ctx.case(rep, tags=[f"block:{name}", f"re-evaluations:{len(hist)}"] + sorted({f"type:{t}" for t in tys.values()}),
                     sample=rep if (i == 0 and name in ("BeamSplitter", "Mirror")) else None)
            ok = check_physics(ctx, name, spec, a, p, rep, hist)
            if i < (8 if ctx.tier == "quick" else 40):
                check_interface(ctx, name, spec, a, dict(rep, kind="interface"))


def _cast(v, t):
    if t in ("complex", "complex128"):
        z = complex(v[0], v[1])
        return z if t == "complex" else np.complex128(z)
    return _cast0(v, t)


def _cast0(v, t):
    return {"int": int, "float": float, "float64": np.float64, "int64": np.int64, "bool": bool}.get(t, float)(v)


def replay(ctx, data):
    if data.get("kind") == "trace":
        from translate import blocks as tb
        from common import REPO
        traced = tb.trace_all(str(REPO))
        want = np.array(tb.eval_block(traced[data["block"]][2], data["env"]))
        got = tb.real_block(str(REPO), data["block"], data["env"])
        d = float(np.max(np.abs(got - want)))
        return d <= 1e-10, f"traced expression vs running code: max difference {d:.3g}"
    B = blocks()
    spec = B[data["block"]]
    a = {k: _cast(v, t) for k, (v, t) in data["args"].items()}
    p = {k: _cast(v, t) for k, (v, t) in data["params"].items()}
    if data.get("kind") == "interface":
        check_interface(ctx, data["block"], spec, a, data)
    else:
        hist = [{k: _cast(v, t) for k, (v, t) in q.items()} for q in data.get("history", [])]
        check_physics(ctx, data["block"], spec, a, p, data, hist)
    if ctx.violations:
        return False, ctx.violations[0]["what"]
    return True, "block matches its documented physics / interface"
