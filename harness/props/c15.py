"""C15 — read-out helpers are faithful, linear views of the scattering matrix.
Random solved models (non-symmetric, sweeps), random complex excitation dictionaries, all pin pairs;
oracle: S·u from the raw array."""
from __future__ import annotations

import numpy as np

import impl

RULE = ("random solved models with 1-6 pins (pins with and without mode names, several modes of one port sharing its base name), sweep length 1-5, non-symmetric complex "
        "matrices with zero entries, solved parameters of length 1 or ns; random excitation dictionaries over a subset of "
        "pins; all helpers {get_T, get_PH, get_A, get_output (both modes), get_full_output, get_data, get_full_data}; the "
        "same circuit built with pin names and with Pin objects; distinct = distinct (matrix, excitation); non-trivial = "
        "at least 2 pins and a non-symmetric matrix")
TRUSTED = ["pandas DataFrame construction", "numpy abs/angle/log10", "translator readout.py (symbolic execution on numpy object arrays; fixed instance K=2, N=3)"]
ASSUMPTIONS = ["A = 0: numpy gives -inf dB for both 20*log10|A| and 10*log10 T; the Lean identity is stated for A != 0"]
EXPLANATION = ("linearity / power / dB identities as Lean theorems over ℂ; the helpers of the current source are executed on a symbolic solved model "
               "(Generated/Readout.lean) and identified with the size-generic model by the C15_src_* theorems; the tracer is validated against the running code")


def rand_model(rng):
    L = impl.lk()
    n = rng.randint(1, 6)
    ns = rng.randint(1, 5)
    r = np.random.default_rng(rng.randrange(2 ** 32))
    # a third of the models have more matrix ports than named pins (partially mapped solver, user model naming a subset)
    nfull = n + (rng.randint(1, 3) if rng.random() < 0.33 else 0)
    S = r.normal(size=(ns, nfull, nfull)) + 1j * r.normal(size=(ns, nfull, nfull))
    S[r.random(size=S.shape) < 0.15] = 0
    # a user-defined device may hand over a real- or integer-typed matrix (an ideal crossing written with 0/1, a real Hadamard
    # coupler): the read-outs must still treat the excitation as complex amplitudes
    kind = rng.random()
    if kind < 0.12:
        S = np.round(S.real * 2).astype(int)
    elif kind < 0.24:
        S = S.real.copy()
    pins, taken = [], set()
    for k in range(n):
        # several modes of one port share the base name (p0_TE, p0_TM, and the mode-less p0): an amplitude given for one of them
        # belongs to that pin only
        base = f"p{rng.randrange(k)}" if k and rng.random() < 0.4 else f"p{k}"
        free = [md for md in (None, "TE", "TM", "m2") if (base, md) not in taken]
        if not free:
            base, free = f"p{k}", [None, "TE", "TM"]
        md = rng.choice(free if base != f"p{k}" else [None, None, "TE", "TM"])
        taken.add((base, md))
        pins.append(L.Pin(base, md))
    idx = rng.sample(range(nfull), n)
    pin_dic = {p: i for p, i in zip(pins, idx)}
    params = {"wl": np.linspace(1.5, 1.6, ns) if rng.random() < 0.7 else np.array([1.55])}
    if rng.random() < 0.5:
        params["x"] = np.array([0.3]) if rng.random() < 0.5 else np.linspace(0, 1, ns)
    m = L.SolvedModel(pin_dic=pin_dic, param_dic=params, Smatrix=S.copy())
    return m, S, pins, idx, params


def check(ctx, rng, i):
    L = impl.lk()
    m, S, pins, idx, params = rand_model(rng)
    n, ns = len(pins), S.shape[0]
    r = np.random.default_rng(rng.randrange(2 ** 32))
    sub = [p for p in pins if rng.random() < 0.6]
    exc = {p.name: complex(r.normal(), r.normal()) for p in sub}
    rep = {"n": n, "ns": ns, "pins": [[p.basename, p.mode_name] for p in pins], "idx": idx,
           "S": [[[[float(z.real), float(z.imag)] for z in row] for row in Sk] for Sk in S],
           "dtype": str(S.dtype), "exc": {k: [v.real, v.imag] for k, v in exc.items()}, "params": {k: [float(x) for x in v] for k, v in params.items()}}
    ctx.case(rep, nontrivial=(n >= 2 and not np.allclose(S[0], S[0].T)), tags=[f"n:{n}", f"ns:{ns}", f"dtype:{S.dtype}"],
             sample={"n": n, "ns": ns, "excited": sorted(exc)} if i < 2 else None)
    # a third of the models are read, then have their pins renamed among each other (a swap or a cycle re-uses names that were
    # just read for other pins) or to fresh names, and are read again: the read-outs follow the current names
    if n >= 2 and rng.random() < 0.35:
        perm = list(range(n))
        rng.shuffle(perm)
        rep["rename"] = [[pins[i].basename, pins[i].mode_name] if rng.random() < 0.8 else [f"z{i}", None] for i in perm]
    return run_twice(ctx, m, S, pins, idx, params, exc, rep)


def run_twice(ctx, m, S, pins, idx, params, exc, rep):
    L = impl.lk()
    ok = run_case(ctx, m, S, pins, idx, params, exc, rep)
    if ok is False or not rep.get("rename"):
        return ok
    new = [L.Pin(b, mo) for b, mo in rep["rename"]]
    if len({p.name for p in new}) != len(new):
        return ok
    try:
        m.pin_mapping({old: nw for old, nw in zip(pins, new)})
    except Exception as e:  # noqa
        return bad(ctx, f"C15:rename-raised-{type(e).__name__}", f"renaming the pins of a solved model among each other raised {type(e).__name__}: {str(e)[:60]}", rep)
    exc2 = {nw.name: exc[old.name] for old, nw in zip(pins, new) if old.name in exc}
    ctx.tag("stream:renamed-after-read")
    return run_case(ctx, m, S, new, idx, params, exc2, dict(rep, after_rename=True))


def run_case(ctx, m, S, pins, idx, params, exc, rep):
    n, ns = len(pins), S.shape[0]
    u = np.zeros(S.shape[-1], complex)
    for p, k in zip(pins, idx):
        u[k] = exc.get(p.name, 0.0)
    try:
        # --- scalar accessors
        for p, a in zip(pins, idx):
            for q, b in zip(pins, idx):
                A = m.get_A(p.name, q.name)
                if A != S[0, a, b]:
                    return bad(ctx, "C15:get_A", f"get_A({p.name},{q.name}) != S[0,{a},{b}]", rep)
                T = m.get_T(p.name, q.name)
                if abs(T - abs(A) ** 2) > 1e-12 * max(1, abs(A) ** 2):
                    return bad(ctx, "C15:get_T", f"get_T != |get_A|^2 for ({p.name},{q.name})", rep)
                if A != 0 and abs(m.get_PH(p.name, q.name) - np.angle(A)) > 1e-12:
                    return bad(ctx, "C15:get_PH", f"get_PH != arg(get_A) for ({p.name},{q.name})", rep)
        # --- get_output
        amp = m.get_output(dict(exc), power=False)
        pw = m.get_output(dict(exc), power=True)
        d0 = S[0] @ u
        for p, k in zip(pins, idx):
            if abs(amp[p.name] - d0[k]) > 1e-10 * max(1, abs(d0[k])):
                return bad(ctx, "C15:get_output-amplitude", f"get_output amplitude at {p.name} is not (S u)[{k}]", rep)
            if abs(pw[p.name] - abs(d0[k]) ** 2) > 1e-10 * max(1, abs(d0[k]) ** 2):
                return bad(ctx, "C15:get_output-power", f"get_output power at {p.name} is not |(S u)[{k}]|^2", rep)
        if set(amp) != {p.name for p in pins}:
            return bad(ctx, "C15:get_output-keys", "get_output does not report every pin", rep)
        # --- linearity on a second excitation
        exc2 = {p.name: complex(0.5 - k, 0.25 * k) for k, p in enumerate(pins)}
        c = 0.7 - 0.2j
        mix = {nm: exc.get(nm, 0) + c * exc2[nm] for nm in exc2}
        a1 = m.get_output(dict(exc), power=False)
        a2 = m.get_output(dict(exc2), power=False)
        a3 = m.get_output(mix, power=False)
        for p in pins:
            if abs(a3[p.name] - (a1[p.name] + c * a2[p.name])) > 1e-9 * (1 + abs(a3[p.name])):
                return bad(ctx, "C15:not-linear", f"get_output is not linear at {p.name}", rep)
        # --- read-outs do not remember earlier excitations: the sparse dictionary again, then one pin at a time
        a4 = m.get_output(dict(exc), power=False)
        for p, k in zip(pins, idx):
            if abs(a4[p.name] - d0[k]) > 1e-10 * max(1, abs(d0[k])):
                return bad(ctx, "C15:get_output-remembers", f"get_output at {p.name} after other read-outs is not (S u)[{k}]: unspecified pins do not count as zero", rep)
        for q, b in zip(pins, idx):
            col = m.get_output({q.name: 1.0}, power=False)
            pcol = m.get_output({q.name: 1.0}, power=True)
            for p, a in zip(pins, idx):
                if abs(col[p.name] - S[0, a, b]) > 1e-10 * max(1, abs(S[0, a, b])) or abs(pcol[p.name] - abs(S[0, a, b]) ** 2) > 1e-10 * max(1, abs(S[0, a, b]) ** 2):
                    return bad(ctx, "C15:get_output-remembers", f"get_output({{{q.name}: 1}}) at {p.name} is not S[{a},{b}]", rep)
        # --- sweep tables
        fo = m.get_full_output(dict(exc), power=False)
        fp = m.get_full_output(dict(exc), power=True)
        if len(fo) != ns:
            return bad(ctx, "C15:get_full_output-rows", f"get_full_output has {len(fo)} rows, sweep has {ns}", rep)
        for k in range(ns):
            dk = S[k] @ u
            for p, kk in zip(pins, idx):
                if abs(fo[p.name].iloc[k] - dk[kk]) > 1e-10 * max(1, abs(dk[kk])) or abs(fp[p.name].iloc[k] - abs(dk[kk]) ** 2) > 1e-10 * max(1, abs(dk[kk]) ** 2):
                    return bad(ctx, "C15:get_full_output-row", f"row {k} of get_full_output at {p.name} is not the read-out of sweep point {k}", rep)
            for nm, v in params.items():
                ev = v[0] if len(v) == 1 else v[k]
                if ns > 1 and abs(fo[nm].iloc[k] - ev) > 0:
                    return bad(ctx, "C15:param-column", f"parameter column {nm} row {k} wrong", rep)
        if pins:
            q, b = pins[-1], idx[-1]
            f1 = m.get_full_output({q.name: 1.0}, power=False)
            for k in range(ns):
                for p, a in zip(pins, idx):
                    if abs(f1[p.name].iloc[k] - S[k, a, b]) > 1e-10 * max(1, abs(S[k, a, b])):
                        return bad(ctx, "C15:get_full_output-remembers", f"get_full_output({{{q.name}: 1}}) row {k} at {p.name} is not S[{k},{a},{b}]", rep)
        (p, a), (q, b) = (pins[0], idx[0]), (pins[-1], idx[-1])
        gd = m.get_data(p.name, q.name)
        if len(gd) != ns:
            return bad(ctx, "C15:get_data-rows", f"get_data has {len(gd)} rows, sweep has {ns}", rep)
        for k in range(ns):
            A = S[k, a, b]
            if gd["Amplitude"].iloc[k] != A or abs(gd["T"].iloc[k] - abs(A) ** 2) > 1e-12 * max(1, abs(A) ** 2):
                return bad(ctx, "C15:get_data-row", f"row {k} of get_data is not the read-out of sweep point {k}", rep)
            if A != 0:
                if abs(gd["dB"].iloc[k] - 10 * np.log10(abs(A) ** 2)) > 1e-9:
                    return bad(ctx, "C15:dB", f"dB != 10 log10 T at row {k}", rep)
                if abs(gd["Phase"].iloc[k] - np.angle(A)) > 1e-12:
                    return bad(ctx, "C15:phase", f"Phase != arg A at row {k}", rep)
            elif not (np.isinf(gd["dB"].iloc[k]) and gd["dB"].iloc[k] < 0):
                return bad(ctx, "C15:dB-zero", "dB of a zero entry is not -inf", rep)
        fd = m.get_full_data()
        for p, a in zip(pins, idx):
            for q, b in zip(pins, idx):
                col = fd[(p, q)]
                if not np.array_equal(np.asarray(col), S[:, a, b]):
                    return bad(ctx, "C15:get_full_data", f"get_full_data column ({p.name},{q.name}) is not S[:,{a},{b}]", rep)
    except Exception as e:  # noqa
        return bad(ctx, f"C15:raised-{type(e).__name__}", f"a read-out helper raised {type(e).__name__}: {str(e)[:80]}", rep)
    return True


def bad(ctx, sig, msg, rep):
    ctx.violation(sig, msg, rep)
    return False


def name_or_pin(ctx, rng):
    """the same circuit wired and exposed by names and by Pin objects gives the same read-outs"""
    L = impl.lk()
    import gen
    circ = gen.random_circuit(rng, ncomp_max=4, ports_max=3)

    def build(use_pin):
        sts = []
        for comp in circ["comps"]:
            k = len(comp["pins"])
            sts.append(L.Structure(model=L.Model(pin_dic={L.Pin(p): i for p, i in zip(comp["pins"], comp["idx"])}, Smatrix=gen.mat_np(comp["S"], k, k))))
        sol = L.Solver()
        for st in sts:
            sol.add_structure(st)
        for (a, p, b, q) in circ["links"]:
            if use_pin:
                sol.connect(sts[a], L.Pin(p), sts[b], L.Pin(q))
            else:
                sol.connect(sts[a], p, sts[b], q)
        for (nm, c, p) in circ["exposed"]:
            if use_pin:
                sol.map_pins({L.Pin(nm): (sts[c], L.Pin(p))})
            else:
                sol.map_pins({nm: (sts[c], p)})
        return sol.solve()
    ctx.case(("name-or-pin", gen.circuit_json(circ)), tags=["stream:name-or-pin"])
    try:
        m1, m2 = build(False), build(True)
        names = [e[0] for e in circ["exposed"]]
        for x in names:
            for y in names:
                if abs(m1.get_A(x, y) - m2.get_A(x, y)) > 1e-12:
                    ctx.violation("C15:name-vs-pin", f"addressing by name and by Pin object differ at ({x},{y})", {"kind": "name-or-pin", "circuit": gen.circuit_json(circ)})
                    return
    except Exception as e:  # noqa
        if impl.outcome_class(e) != "singular":
            ctx.violation(f"C15:name-vs-pin-raised-{type(e).__name__}", f"building by name / by Pin raised {type(e).__name__}", {"kind": "name-or-pin", "circuit": gen.circuit_json(circ)})


def trace_monitor(ctx, rng):
    """translator of `Generated/Readout.lean` vs the running code: the traced expression trees, evaluated at random complex
    stacks and excitations, must equal what the real helpers return on the real solved model"""
    from translate import readout as tr
    from common import REPO
    try:
        traced = tr.trace_all(str(REPO))
    except Exception as e:  # noqa  (already a broken obligation of the Lean stage)
        ctx.notes.append(f"read-out tracer: {type(e).__name__}: {str(e)[:200]}")
        return
    for i in range(ctx.budget(30, 300)):
        env = {"up": complex(rng.uniform(-1, 1), rng.uniform(-1, 1)), "ur": complex(rng.uniform(-1, 1), rng.uniform(-1, 1))}
        for k in range(tr.K):
            for a in range(tr.N):
                for b in range(tr.N):
                    env[f"(S {k} {a} {b})"] = complex(rng.uniform(-1, 1), rng.uniform(-1, 1))
        rep = {"kind": "trace", "env": {k: [v.real, v.imag] for k, v in env.items()}}
        ctx.case(rep, tags=["traced-readout"])
        try:
            want = tr.eval_all(traced, env)
            got = tr.real_all(str(REPO), env)
        except Exception as e:  # noqa
            ctx.disagreement("C15.translator.readout", f"{type(e).__name__}: {str(e)[:100]}", rep)
            return
        for k in want:
            if len(want[k]) != len(got.get(k, [])) or max(abs(x - y) for x, y in zip(want[k], got[k])) > 1e-9:
                ctx.disagreement("C15.translator.readout", f"{k}: traced expression and running code differ", rep)
                return


def run(ctx):
    rng = ctx.subrng("c15")
    trace_monitor(ctx, ctx.subrng("c15-trace"))
    for i in range(ctx.budget(300, 5000)):
        if ctx.time_left() < 0:
            break
        check(ctx, rng, i)
    for i in range(ctx.budget(40, 400)):
        name_or_pin(ctx, rng)


def replay(ctx, data):
    L = impl.lk()
    if data.get("kind") == "name-or-pin":
        return True, "regenerated stream; not replayed"
    if data.get("kind") == "trace":
        from translate import readout as tr
        from common import REPO
        env = {k: complex(v[0], v[1]) for k, v in data["env"].items()}
        want, got = tr.eval_all(tr.trace_all(str(REPO)), env), tr.real_all(str(REPO), env)
        d = max(abs(x - y) for k in want for x, y in zip(want[k], got[k]))
        return d <= 1e-9, f"traced read-outs vs running code: max difference {d:.3g}"
    pins = [L.Pin(b, mo) for b, mo in data["pins"]]
    S = np.array([[[complex(z[0], z[1]) for z in row] for row in Sk] for Sk in data["S"]])
    if np.dtype(data.get("dtype", "complex128")).kind in "if":
        S = S.real.astype(data["dtype"])
    params = {k: np.array(v) for k, v in data["params"].items()}
    m = L.SolvedModel(pin_dic={p: i for p, i in zip(pins, data["idx"])}, param_dic=params, Smatrix=S.copy())
    exc = {k: complex(v[0], v[1]) for k, v in data["exc"].items()}
    run_twice(ctx, m, S, pins, data["idx"], params, exc, {k: v for k, v in data.items() if k != "after_rename"})
    if ctx.violations:
        return False, ctx.violations[0]["what"]
    return True, "read-outs are faithful views of S"
