"""Shared machinery for C07 / C16: a reference account of the wiring state ("what a freshly built solver
would hold"), a driver for the real Solver, deep snapshots and the consistency checks of the redundant views."""
from __future__ import annotations

import copy

import numpy as np

import gen
import impl


class Spec:
    """Reference state: which structures are present, their *remaining* pins, the set of links, the exposure."""

    def __init__(self, comps):
        self.comps = comps                      # component descriptions (pins, idx, S)
        self.present = []                       # component ids in declaration order
        self.pins = {c: list(comp["pins"]) for c, comp in enumerate(comps)}   # remaining pins per component
        self.links = []                         # (a, p, b, q)
        self.mapping = {}                       # exposed name -> (c, p)
        self.was_cut = set()

    def linked(self):
        s = set()
        for (a, p, b, q) in self.links:
            s.add((a, p))
            s.add((b, q))
        return s

    def free(self):
        l = self.linked()
        return [(c, p) for c in self.present for p in self.pins[c] if (c, p) not in l]

    def link_of(self, c, p):
        for l in self.links:
            if (l[0], l[1]) == (c, p) or (l[2], l[3]) == (c, p):
                return l
        return None

    # --- operations (the *intended* semantics) ---
    def add(self, c):
        self.present.append(c)

    def connect(self, a, p, b, q):
        self.links.append((a, p, b, q))

    def cut(self, c):
        self.present.remove(c)
        self.links = [l for l in self.links if l[0] != c and l[2] != c]
        self.mapping = {n: t for n, t in self.mapping.items() if t[0] != c}
        self.was_cut.add(c)

    def remove(self, c):
        for l in self.links:
            if l[0] == c and l[2] != c:
                self.pins[l[2]].remove(l[3])
            elif l[2] == c and l[0] != c:
                self.pins[l[0]].remove(l[1])
        self.present.remove(c)
        self.links = [l for l in self.links if l[0] != c and l[2] != c]
        self.mapping = {n: t for n, t in self.mapping.items() if t[0] != c}

    def prune(self):
        """removes every placed model that has no pins at all; returns (removed ids, solver now empty)"""
        gone = [c for c in self.present if not self.comps[c]["pins"]]
        self.present = [c for c in self.present if c not in gone]
        return gone, not self.present

    def raise_all(self):
        """maps every unmapped free pin under its own name; returns False if a name would clash"""
        mapped = set(self.mapping.values())
        new = dict(self.mapping)
        for (c, p) in self.free():
            if (c, p) in mapped:
                continue
            if p in new:
                return False
            new[p] = (c, p)
        self.mapping = new
        return True

    def circuit(self):
        """the equivalent freshly-built circuit: remaining components (full matrices; vanished pins are simply
        unexposed), links, exposure"""
        ren = {c: k for k, c in enumerate(self.present)}
        comps = [self.comps[c] for c in self.present]
        links = [(ren[a], p, ren[b], q) for (a, p, b, q) in self.links]
        exposed = [(n, ren[c], p) for n, (c, p) in self.mapping.items()]
        return {"comps": comps, "links": links, "exposed": exposed}


class Real:
    """the real Solver driven with the same operations"""

    def __init__(self, comps):
        L = impl.lk()
        self.L = L
        self.sts = []
        AM = impl._CLASSES.get("am") or impl.affine_model_class()
        impl._CLASSES["am"] = AM
        for c, comp in enumerate(comps):
            n = len(comp["pins"])
            if n == 0:
                m = L.Model()                                   # a placed model without pins (prune's target)
            elif c % 2 == 0:
                m = L.Model(pin_dic={L.Pin(p): i for p, i in zip(comp["pins"], comp["idx"])}, Smatrix=gen.mat_np(comp["S"], n, n))
            else:
                # a block with a (dummy) parameter whose own default is 0.25: the matrix does not depend on it, but
                # the solver's default_params does, so that calls which touch the defaults become observable
                m = AM(comp["pins"], comp["idx"], gen.mat_np(comp["S"], n, n), np.zeros((n, n), complex), pname="pq", default=0.25)
            self.sts.append(L.Structure(model=m))
        self.sol = L.Solver()

    def sid(self, st):
        for k, s in enumerate(self.sts):
            if s is st:
                return k
        return None

    def snapshot(self):
        """deep, identity-free snapshot of the solver's and the structures' wiring state"""
        s = self.sol
        key = lambda t: (self.sid(t[0]), t[1].name)
        return {
            "structures": [self.sid(x) for x in s.structures],
            "connections": [(key(a), key(b)) for a, b in s.connections.items()],
            "connections_list": [key(x) for x in s.connections_list],
            "free_pins": [key(x) for x in s.free_pins],
            "pin_mapping": [(n.name, key(t)) for n, t in s.pin_mapping.items()],
            "default_params": sorted((k, repr(v)) for k, v in s.default_params.items()),
            "param_mapping": sorted(s.param_mapping),
            "monitors": sorted(str(self.sid(x)) for x in s.monitor_st),
            "st": [{"pin_list": [key(x) for x in st.pin_list],
                    "conn_dict": [(key(a), key(b)) for a, b in st.conn_dict.items()],
                    "connected_to": [self.sid(x) for x in st.connected_to]} for st in self.sts],
        }


def consistency(real: Real, spec: Spec):
    """compare the real solver's views with the reference; returns a list of (signature-suffix, message)"""
    out = []
    s = real.sol
    key = lambda t: (real.sid(t[0]), t[1].name)
    # structures
    if [real.sid(x) for x in s.structures] != spec.present:
        out.append(("structures", f"structures {[real.sid(x) for x in s.structures]} != {spec.present}"))
    # connections as a set of unordered pairs
    rc = {frozenset((key(a), key(b))) for a, b in s.connections.items()}
    sc = {frozenset(((a, p), (b, q))) for (a, p, b, q) in spec.links}
    if rc != sc:
        out.append(("connections", f"connections {sorted(map(sorted, rc))} != {sorted(map(sorted, sc))}"))
    # connections_list = the pins of connections (multiset)
    cl = sorted(key(x) for x in s.connections_list)
    ex = sorted(x for l in spec.links for x in ((l[0], l[1]), (l[2], l[3])))
    if cl != ex:
        out.append(("connlist", f"connections_list {cl} != pins of the connections {ex}"))
    # free pins as a multiset
    fp = sorted(key(x) for x in s.free_pins)
    if fp != sorted(spec.free()):
        out.append(("free-pins", f"free_pins {fp} != unconnected pins of the remaining components {sorted(spec.free())}"))
    # pin mapping
    pm = {n.name: key(t) for n, t in s.pin_mapping.items()}
    if pm != spec.mapping:
        out.append(("pin-mapping", f"pin_mapping {pm} != {spec.mapping}"))
    # per-structure tables of the *present* structures
    for c in spec.present:
        st = real.sts[c]
        cd = {key(a): key(b) for a, b in st.conn_dict.items()}
        exp = {}
        for (a, p, b, q) in spec.links:
            if a == c:
                exp[(a, p)] = (b, q)
            if b == c:
                exp[(b, q)] = (a, p)
        if cd != exp:
            out.append(("conn-dict", f"structure {c}: conn_dict {cd} != {exp}"))
        ct = sorted(real.sid(x) for x in st.connected_to)
        if ct != sorted({v[0] for v in exp.values()}):
            out.append(("connected-to", f"structure {c}: connected_to {ct} != {sorted({v[0] for v in exp.values()})}"))
        pl = [p.name for (_, p) in st.pin_list]
        if sorted(pl) != sorted(spec.pins[c]):
            out.append(("pin-list", f"structure {c}: pins {pl} != {spec.pins[c]}"))
    return out


def solve_and_compare(real: Real, spec: Spec, tol=1e-9):
    """returns (ok, message): real solve vs numpy reference of the equivalent fresh circuit and vs a fresh real build"""
    circ = spec.circuit()
    names = [e[0] for e in circ["exposed"]]
    Tref, cond, _, _ = gen.reference_solve(circ)
    if cond > 1e6:
        return True, "skipped (ill-conditioned)"
    L = real.L
    try:
        mod = real.sol.solve()
        T = impl.solved_matrix(mod, names)[0]
    except Exception as e:  # noqa
        if impl.outcome_class(e) == "singular":
            return True, "singular"
        return False, f"solve after the history raised {type(e).__name__}: {str(e)[:60]}"
    err = float(np.max(np.abs(T - Tref))) if T.size else 0.0
    if not (err <= tol * max(1.0, cond)):
        return False, f"solve after the history differs from the freshly built circuit by {err:.3e}"
    real.last_solve = (names, T, cond)
    return True, "ok"


# ---------------------------------------------------------------- correspondence with the Lean wiring model
def model_solve_compare(ctx, comps, executed, solves, name, replay):
    """`solves` = [(position in executed, exposed names, real matrix, condition number)]: the same history through the wiring model,
    the network each state denotes (Wiring.denote) through the model's elimination loop, against the real solve of that moment"""
    if not solves or len(comps) > 8 or any(len(c["pins"]) == 0 for c in comps):
        return
    ops, idx, names = to_model_ops(comps, executed, with_solve=True)
    expnames = [None] * len(names)
    for nm, k in names.items():
        expnames[k] = nm
    ans = ctx.driver.ask({"op": "wsolve", "comps": [{"pins": c["pins"], "idx": c["idx"], "S": gen.mat_json(c["S"])} for c in comps],
                          "ops": ops, "names": [[names[p] for p in c["pins"]] for c in comps], "expnames": expnames})
    if "solves" not in ans or len(ans["solves"]) != len(solves):
        ctx.disagreement(name, f"model: {str(ans)[:100]} ({len(solves)} solves expected)", replay)
        return
    for (k, rnames, T, cond), m in zip(solves, ans["solves"]):
        if "T" not in m:
            ctx.disagreement(name, f"the network the model state denotes after {executed[k - 1] if k else 'start'} does not solve: {m}", replay)
            return
        if sorted(m["names"]) != sorted(rnames):
            ctx.disagreement(name, f"exposed names of the denoted network {m['names']} vs the code {rnames}", replay)
            return
        n = len(rnames)
        order = [m["names"].index(x) for x in rnames]
        Tm = gen.json_mat_np([z for row in m["T"] for z in row], n, n) if n else np.zeros((0, 0), complex)
        Tm = Tm[np.ix_(order, order)] if n else Tm
        ctx.tag("model:wiring-solve")
        import circuits as _cs
        _cs.hyp_tags(ctx, m.get("hyp"))
        if Tm.size and float(np.max(np.abs(Tm - T))) > 1e-9 * max(1.0, cond):
            ctx.disagreement(name, f"solve of the network the model state denotes differs from the code's solve after the history (step {k})", replay)
            return


def to_model_ops(comps, executed, with_solve=False):
    """translate the executed calls (pin names) into model ops (pin indices); returns (ops, expected outcome kinds)"""
    def pid(c, p):
        try:
            return comps[c]["pins"].index(p)
        except (ValueError, IndexError):
            return 99
    ops, idx = [], []
    names = {}
    # the pins' own names share one id space with the names the user maps by hand (raise-all exposes a pin under its own name)
    for c in comps:
        for p in c["pins"]:
            names.setdefault(p, len(names))
    for k, e in enumerate(executed):
        kind = e[0]
        if kind == "raise":
            ops.append(["raise"]); idx.append(k)
        elif kind in ("add", "readd"):
            ops.append(["add", e[1]]); idx.append(k)
        elif kind == "connect":
            ops.append(["connect", e[1], pid(e[1], e[2]), e[3], pid(e[3], e[4])]); idx.append(k)
        elif kind in ("cut", "remove"):
            ops.append([kind, e[1]]); idx.append(k)
        elif kind == "put":
            ops.append(["put", e[1], pid(e[1], e[2]), e[3], pid(e[3], e[4])]); idx.append(k)
        elif kind == "prune":
            # prune of a flat solver = remove_structure on every pinless model, in declaration order
            for j, c in enumerate(e[1]):
                ops.append(["remove", c]); idx.append(k if j == len(e[1]) - 1 else None)
        elif kind == "map":
            n = names.setdefault(e[1], len(names))
            ops.append(["map", n, e[2], pid(e[2], e[3])]); idx.append(k)
        elif kind == "invalid":
            sub = e[1]
            if sub in ("first-connected", "both-connected"):
                ops.append(["connect", e[2], pid(e[2], e[3]), e[4], pid(e[4], e[5])]); idx.append(k)
            elif sub == "second-connected":
                ops.append(["connect", e[4], pid(e[4], e[5]), e[2], pid(e[2], e[3])]); idx.append(k)
            elif sub == "repeat":
                ops.append(["connect", e[2], pid(e[2], e[3]), e[4], pid(e[4], e[5])]); idx.append(k)
            elif sub == "repeat-flipped":
                ops.append(["connect", e[4], pid(e[4], e[5]), e[2], pid(e[2], e[3])]); idx.append(k)
            elif sub in ("unknown-name", "unknown-pin"):
                ops.append(["connect", e[2], pid(e[2], e[3]), e[4], 99]); idx.append(k)
            elif sub == "foreign-structure":
                ops.append(["connect", e[2], pid(e[2], e[3]), 99, 0]); idx.append(k)
            elif sub == "duplicate-add":
                ops.append(["add", e[2]]); idx.append(k)
            elif sub.startswith("put-") and len(e) >= 5:
                # a put of a fresh two-pin object (pins u, v): a spare object of the model's heap, one per put
                spare = len(comps) + sum(1 for o in ops if o[0] == "put")
                ops.append(["put", spare, {"u": 0, "v": 1}.get(e[3], 99), e[2], pid(e[2], e[4])]); idx.append(k)
        elif kind == "solve" and with_solve:
            ops.append(["solve"]); idx.append(k)
        elif kind == "complete" and with_solve:
            # completing a circuit = raise-all, then solve
            ops.append(["raise"]); idx.append(None)
            ops.append(["solve"]); idx.append(k)
        # solve / complete do not change the modelled tables
    return ops, idx, names


def canon_real(snap, comps, names):
    def pid(key):
        c, p = key
        return (c, comps[c]["pins"].index(p)) if c is not None and p in comps[c]["pins"] else (c, p)
    return {
        "structures": list(snap["structures"]),
        "connections": sorted(tuple(sorted((pid(a), pid(b)))) for a, b in snap["connections"]),
        "connections_list": sorted(pid(x) for x in snap["connections_list"]),
        "free_pins": sorted(pid(x) for x in snap["free_pins"]),
        "pin_mapping": sorted((names.get(n, n), pid(t)) for n, t in snap["pin_mapping"]),
        "st": [{"pin_list": sorted(pid(x)[1] for x in st["pin_list"]),
                "conn_dict": sorted((pid(a)[1], pid(b)) for a, b in st["conn_dict"]),
                "connected_to": sorted(st["connected_to"])} for st in snap["st"]],
    }


def canon_model(state):
    t = lambda p: (p[0], p[1])
    return {
        "structures": list(state["structures"]),
        "connections": sorted(tuple(sorted((t(a), t(b)))) for a, b in state["connections"]),
        "connections_list": sorted(t(x) for x in state["connections_list"]),
        "free_pins": sorted(t(x) for x in state["free_pins"]),
        "pin_mapping": sorted((n, t(x)) for n, x in state["pin_mapping"]),
        "st": [{"pin_list": sorted(st["pin_list"]), "conn_dict": sorted((a, t(b)) for a, b in st["conn_dict"]),
                "connected_to": sorted(st["connected_to"])} for st in state["st"]],
    }


def model_compare(ctx, comps, executed, snaps, name, replay):
    """snaps[k] = real snapshot after executed[k]; compares with the Lean model step by step"""
    ops, idx, names = to_model_ops(comps, executed)
    if not ops:
        return
    nput = sum(1 for o in ops if o[0] == "put")
    for nm in ("u", "v"):
        names.setdefault(nm, len(names))
    ans = ctx.driver.ask({"op": "wiring", "pins": [len(c["pins"]) for c in comps] + [2] * nput, "ops": ops,
                          "names": [[names[p] for p in c["pins"]] for c in comps] + [[names["u"], names["v"]]] * nput})
    if "steps" not in ans:
        ctx.disagreement(name, f"model: {ans}", replay)
        return
    for j, step in enumerate(ans["steps"]):
        k = idx[j]
        if k is None:
            continue
        if k >= len(snaps) or snaps[k] is None:
            break
        real = canon_real(snaps[k], comps, names)
        mod = canon_model(step["state"])
        mod["st"] = mod["st"][:len(real["st"])]     # objects placed later by put(), and the spare ones of rejected puts, are not yet structures of the harness
        if real != mod:
            diff = [key for key in real if real[key] != mod[key]]
            ctx.disagreement(name, f"after {executed[k]}: model and implementation differ in {diff}", replay)
            return
