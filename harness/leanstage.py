"""Lean stage of a check: regenerate `Generated/*` from /repo, build the property module, audit axioms."""
from __future__ import annotations

import fcntl
import hashlib
import json
import os
import re
import subprocess
import sys
import time
from pathlib import Path

from common import VERIF, REPO, LEAN, CACHE, ALLOWED_AXIOMS

sys.path.insert(0, str(Path(__file__).resolve().parent))

GEN_DIR = LEAN / "LekkerVerif" / "Generated"
FORBIDDEN = re.compile(r"\bsorry\b|\badmit\b|^axiom\s|native_decide|bv_decide|implemented_by|\bunsafe\s|maxHeartbeats\s+0")


def _translators():
    from translate import registry
    return registry()


class Lock:
    def __enter__(self):
        CACHE.mkdir(exist_ok=True)
        self.f = open(CACHE / "lock", "w")
        fcntl.flock(self.f, fcntl.LOCK_EX)
        return self

    def __exit__(self, *a):
        fcntl.flock(self.f, fcntl.LOCK_UN)
        self.f.close()


def regenerate(names=None):
    """Run the translators; returns {name: {"changed": bool, "error": str|None, "differs_from_pinned": bool}}."""
    GEN_DIR.mkdir(parents=True, exist_ok=True)
    res = {}
    tr = _translators()
    for name, fn in tr.items():
        if names is not None and name not in names:
            continue
        target = GEN_DIR / f"{name}.lean"
        pinned = LEAN / "Generated.pinned" / f"{name}.lean"
        info = {"changed": False, "error": None, "differs_from_pinned": None}
        try:
            text = fn(str(REPO))
        except Exception as e:  # Unsupported or parse failure: broken obligation, never skipped
            info["error"] = f"{type(e).__name__}: {e}"
            # make dependents fail to build rather than silently use a stale translation
            text = (f"-- translator failed: {info['error']}\n"
                    f"#eval (show Nat from \"translator failed for {name}\")\n")
        old = target.read_text() if target.exists() else None
        if old != text:
            target.write_text(text)
            info["changed"] = True
        if getattr(fn, "info", None):
            info["details"] = fn.info
        if pinned.exists():
            info["differs_from_pinned"] = pinned.read_text() != text
        res[name] = info
    return res


def lean_tree_hash() -> str:
    h = hashlib.sha256()
    files = sorted(p for p in LEAN.rglob("*.lean") if ".lake" not in p.parts)
    files += [LEAN / "lakefile.toml"]
    for p in files:
        h.update(str(p.relative_to(LEAN)).encode())
        h.update(p.read_bytes())
    return h.hexdigest()[:20]


def lake(args, timeout=3000):
    env = dict(os.environ)
    t0 = time.time()
    p = subprocess.run(["lake"] + args, cwd=LEAN, capture_output=True, text=True, timeout=timeout, env=env)
    return p.returncode, p.stdout + p.stderr, time.time() - t0


def first_errors(out: str, limit=6):
    errs = []
    for line in out.splitlines():
        if re.match(r"^error: .*\.lean:\d+:\d+", line) or line.startswith("error: "):
            errs.append(line.strip()[:300])
    return errs[:limit]


def build_driver():
    rc, out, dt = lake(["build", "lkdriver"])
    return rc == 0, first_errors(out), dt


def build_module(module: str):
    rc, out, dt = lake(["build", module])
    return rc == 0, first_errors(out), dt


def grep_forbidden(files):
    hits = []
    for p in files:
        in_block = 0
        for i, line in enumerate(p.read_text().splitlines(), 1):
            s = line
            # strip comments (line and simple block comments)
            if in_block:
                if "-/" in s:
                    in_block = 0
                    s = s.split("-/", 1)[1]
                else:
                    continue
            if "/-" in s:
                pre, rest = s.split("/-", 1)
                if "-/" in rest:
                    s = pre + rest.split("-/", 1)[1]
                else:
                    s = pre
                    in_block = 1
            s = s.split("--", 1)[0]
            if FORBIDDEN.search(s):
                hits.append(f"{p.relative_to(LEAN)}:{i}: {line.strip()[:120]}")
    return hits


def module_sources(module: str):
    """all project-local .lean files a module transitively imports"""
    seen = {}
    todo = [module]
    while todo:
        m = todo.pop()
        if m in seen:
            continue
        p = LEAN / (m.replace(".", "/") + ".lean")
        if not p.exists():
            continue
        seen[m] = p
        for line in p.read_text().splitlines():
            mm = re.match(r"^import\s+(LekkerVerif[\w.]*)", line)
            if mm:
                todo.append(mm.group(1))
    return list(seen.values())


def audit(pid: str, module: str, theorems):
    """#print axioms for every obligation; returns {theorem: {"axioms": [...]} | {"missing": True}}"""
    CACHE.mkdir(exist_ok=True)
    f = CACHE / f"Audit_{pid}.lean"
    lines = [f"import {module}"]
    for t in theorems:
        lines.append(f"#print axioms {t}")
    f.write_text("\n".join(lines) + "\n")
    p = subprocess.run(["lake", "env", "lean", str(f)], cwd=LEAN, capture_output=True, text=True, timeout=1800)
    out = p.stdout + p.stderr
    res = {}
    for t in theorems:
        m = re.search(r"'" + re.escape(t) + r"' depends on axioms: \[([^\]]*)\]", out, re.S)
        if m:
            res[t] = {"axioms": [a.strip() for a in m.group(1).replace("\n", " ").split(",") if a.strip()]}
        elif re.search(r"'" + re.escape(t) + r"' does not depend on any axioms", out):
            res[t] = {"axioms": []}
        else:
            res[t] = {"missing": True}
    return res, out


def lean_stage(pid: str, spec: dict, thorough: bool = False):
    """Returns a dict describing obligations, discharged, broken list, generated info."""
    module = spec["module"]
    theorems = spec["theorems"]
    report = {"module": module, "obligations": len(theorems), "discharged": 0, "broken": [],
              "generated": {}, "axioms": {}, "checker_cmd": f"cd lean && lake build {module} && lake env lean .cache/Audit_{pid}.lean  (#print axioms)",
              "build_s": 0.0}
    with Lock():
        gen = regenerate()
        report["generated"] = gen
        # the regenerated files this module depends on: the declared ones and whatever it imports transitively
        needed = set(spec.get("generated", [])) | {q.stem for q in module_sources(module) if "Generated" in q.parts}
        report["generated_needed"] = sorted(needed)
        for name in sorted(needed):
            if gen.get(name, {}).get("error"):
                report["broken"].append({"obligation": f"translator:{name}", "why": gen[name]["error"]})
        key = lean_tree_hash()
        cache_file = CACHE / f"lean_{pid}_{key}.json"
        if cache_file.exists() and not thorough:
            cached = json.loads(cache_file.read_text())
            cached["generated"] = gen
            cached["cached"] = True
            # driver must exist too
            if (LEAN / ".lake/build/bin/lkdriver").exists():
                return cached
        ok_d, errs_d, dt_d = build_driver()
        report["build_s"] += dt_d
        report["driver_ok"] = ok_d
        if not ok_d:
            report["broken"].append({"obligation": "build:lkdriver", "why": "; ".join(errs_d)})
        ok, errs, dt = build_module(module)
        report["build_s"] += dt
        if not ok:
            report["broken"].append({"obligation": f"build:{module}", "why": "; ".join(errs)})
        srcs = module_sources(module)
        hits = grep_forbidden(srcs)
        for h in hits:
            report["broken"].append({"obligation": "forbidden-construct", "why": h})
        if ok:
            res, out = audit(pid, module, theorems)
            for t, r in res.items():
                if r.get("missing"):
                    report["broken"].append({"obligation": t, "why": "theorem not found in compiled environment"})
                else:
                    bad = [a for a in r["axioms"] if a not in ALLOWED_AXIOMS]
                    report["axioms"][t] = r["axioms"]
                    if bad:
                        report["broken"].append({"obligation": t, "why": f"depends on axioms {bad}"})
                    elif not hits:
                        report["discharged"] += 1
        if thorough and ok:
            mods = [module]
            p = subprocess.run(["lake", "env", "leanchecker"] + mods, cwd=LEAN, capture_output=True, text=True, timeout=3000)
            report["leanchecker"] = {"rc": p.returncode, "tail": (p.stdout + p.stderr)[-300:]}
            if p.returncode != 0:
                report["broken"].append({"obligation": "leanchecker", "why": (p.stdout + p.stderr)[-300:]})
        if not report["broken"]:
            cache_file.write_text(json.dumps(report))
    return report
