"""Shared circuit-level machinery for C01/C02/C03/C08/C10: implementation run, model run, oracle, shrinker."""
from __future__ import annotations

import copy

import numpy as np

import gen
import impl

TOL = 1e-9


def exposed_names(circ):
    return [e[0] for e in circ["exposed"]]


def has_self_link(circ):
    return any(a == b for (a, p, b, q) in circ["links"])


def impl_solve(circ, hook=None, **build_kw):
    """returns ("ok", T[n,n]) or (outcome_class, None); builds a fresh solver every time"""
    L = impl.lk()
    import lekkersim.sol as solmod
    try:
        sol, sts = impl.build_solver(circ, **build_kw)
    except Exception as e:  # rejected at build time (e.g. connect raised)
        return "build:" + impl.outcome_class(e), None
    old = getattr(solmod, "_VERIF_MERGE_HOOK", None)
    try:
        if hook is not None:
            solmod._VERIF_MERGE_HOOK = hook(sts)
        mod = sol.solve()
        T = impl.solved_matrix(mod, exposed_names(circ))[0]
        return "ok", T
    except Exception as e:  # noqa
        return impl.outcome_class(e), None
    finally:
        solmod._VERIF_MERGE_HOOK = old


def hyp_tags(ctx, hyp):
    """the hypotheses of the theorems about the elimination (NetD.WF, IdxWF, ExposureOK, non-empty), evaluated by the driver on
    the circuit it was given: counted in the evidence, so that it states on how many generated inputs the theorems applied"""
    if not hyp:
        return
    ok = all(hyp.get(k) for k in ("wf", "idx", "exposure", "nonempty"))
    ctx.tag("hyp:elimination-theorems-apply" if ok else "hyp:outside:" + "+".join(k for k in ("wf", "idx", "exposure", "nonempty") if not hyp.get(k)))


def model_solve(ctx, circ, sched=None):
    req = {"op": "solve"}
    req.update(gen.circuit_json(circ))
    if sched is not None:
        req["sched"] = [list(p) for p in sched]
    ans = ctx.driver.ask(req)
    hyp_tags(ctx, ans.get("hyp"))
    if "T" in ans:
        n = len(circ["exposed"])
        flat = [z for row in ans["T"] for z in row]
        return "ok", gen.json_mat_np(flat, n, n) if n else np.zeros((0, 0), complex)
    return ans.get("err", "?"), None


def forced_schedule_hook(pairs, log=None):
    """hook factory: forces the t-th merge to join the structures with model ids pairs[t]
    (base structure c has id c, the composite created by merge t has id n+t)."""
    def factory(sts):
        ids = {id(s): k for k, s in enumerate(sts)}
        objs = {k: s for k, s in enumerate(sts)}
        n = len(sts)
        state = {"t": 0}

        def hook(solver, st_list, source_st, tar_st):
            for s in st_list:
                if id(s) not in ids:
                    k = n + state["t"] - 1
                    ids[id(s)] = k
                    objs[k] = s
            t = state["t"]
            state["t"] += 1
            if log is not None:
                log.append((ids.get(id(source_st)), ids.get(id(tar_st))))
            if pairs is None or t >= len(pairs):
                return source_st, tar_st
            i, j = pairs[t]
            return objs[i], objs[j]
        return hook
    return factory


def traced_solve(ctx, circ, sched):
    """Run the same forced schedule on the real elimination loop (merge hook) and on the Lean loop, and return both traces:
    per merge step the composite's pins [(base structure id, pin name)] and the coefficient between every ordered pair of them.
    -> (outcome_impl, steps_impl, outcome_model, steps_model); a step = (pins in the model's order, complex matrix in that order,
    set of member ids) for the model, dict {(c, name): index}, matrix, members for the implementation."""
    L = impl.lk()
    import lekkersim.sol as solmod
    seen = []

    def factory(sts):
        inner = forced_schedule_hook(sched)(sts)
        base = {id(s) for s in sts}
        known = set(base)

        def hook(solver, st_list, source_st, tar_st):
            for s in st_list:
                if id(s) not in known:
                    known.add(id(s))
                    seen.append(s)
            return inner(solver, st_list, source_st, tar_st)
        return hook
    try:
        sol, sts = impl.build_solver(circ)
    except Exception as e:  # noqa
        return "build:" + impl.outcome_class(e), [], None, []
    ids = {id(s): k for k, s in enumerate(sts)}
    old = getattr(solmod, "_VERIF_MERGE_HOOK", None)
    out_i, steps_i = "ok", []
    try:
        solmod._VERIF_MERGE_HOOK = factory(sts)
        # snapshot every composite when it is first seen (later merges do not touch it, but a snapshot is safer)
        snaps = []
        orig = factory

        def snap(st):
            pd = {(ids[id(s)], pin.name): i for (s, pin), i in st.pin_dic.items()}
            mem = sorted(ids[id(s)] for s in st.structures)
            return pd, np.array(st.Smatrix)[0].copy(), mem
        sol.solve()
        comps = list(seen)
        if len(sts) > 1 and (not comps or comps[-1] is not sol.main):
            comps.append(sol.main)
        for st in comps:
            steps_i.append(snap(st))
    except Exception as e:  # noqa
        out_i = impl.outcome_class(e)
    finally:
        solmod._VERIF_MERGE_HOOK = old
    req = {"op": "solve", "trace": True, "sched": [list(p) for p in sched]}
    req.update(gen.circuit_json(circ))
    ans = ctx.driver.ask(req)
    if "steps" not in ans:
        return out_i, steps_i, ans.get("err", "?"), []
    steps_m = []
    for stp in ans["steps"]:
        pins = [(int(c), nm) for c, nm in stp["pins"]]
        k = len(pins)
        flat = [z for row in stp["S"] for z in row]
        steps_m.append((pins, gen.json_mat_np(flat, k, k) if k else np.zeros((0, 0), complex), sorted(stp["members"])))
    return out_i, steps_i, "ok", steps_m


def all_schedules(n, limit=None, rng=None):
    """all sequences of ordered id pairs that merge n base structures into one"""
    out = []

    def rec(live, t, acc):
        if len(live) == 1:
            out.append(list(acc))
            return
        for i in live:
            for j in live:
                if i != j:
                    nl = [x for x in live if x not in (i, j)] + [n + t]
                    acc.append((i, j))
                    rec(nl, t + 1, acc)
                    acc.pop()
    rec(list(range(n)), 0, [])
    if limit is not None and len(out) > limit and rng is not None:
        out = rng.sample(out, limit)
    return out


def random_schedule(n, rng):
    live = list(range(n))
    acc = []
    t = 0
    while len(live) > 1:
        i, j = rng.sample(live, 2)
        acc.append((i, j))
        live = [x for x in live if x not in (i, j)] + [n + t]
        t += 1
    return acc


# ---------------------------------------------------------------- shrinking
def drop_component(circ, c):
    new = {"comps": [copy.deepcopy(x) for k, x in enumerate(circ["comps"]) if k != c], "links": [], "exposed": []}
    ren = lambda k: k if k < c else k - 1
    for (a, p, b, q) in circ["links"]:
        if a != c and b != c:
            new["links"].append((ren(a), p, ren(b), q))
    for (nm, k, p) in circ["exposed"]:
        if k != c:
            new["exposed"].append((nm, ren(k), p))
    for key in circ:
        if key not in new:
            new[key] = copy.deepcopy(circ[key])
    return new


def shrink_circuit(circ, fails, max_steps=200):
    """greedy shrink while `fails(circ)` stays true"""
    cur = circ
    steps = 0
    changed = True
    while changed and steps < max_steps:
        changed = False
        for c in range(len(cur["comps"]) - 1, -1, -1):
            if len(cur["comps"]) <= 1:
                break
            cand = drop_component(cur, c)
            steps += 1
            if safe(fails, cand):
                cur = cand
                changed = True
                break
        if changed:
            continue
        for k in range(len(cur["links"]) - 1, -1, -1):
            cand = copy.deepcopy(cur)
            del cand["links"][k]
            steps += 1
            if safe(fails, cand):
                cur = cand
                changed = True
                break
        if changed:
            continue
        for k in range(len(cur["exposed"]) - 1, -1, -1):
            if len(cur["exposed"]) <= 1:
                break
            cand = copy.deepcopy(cur)
            del cand["exposed"][k]
            steps += 1
            if safe(fails, cand):
                cur = cand
                changed = True
                break
    return cur


def safe(fails, cand):
    try:
        return bool(fails(cand))
    except Exception:
        return False


def circuit_tags(circ):
    n = len(circ["comps"])
    pairs = {}
    for (a, p, b, q) in circ["links"]:
        key = (min(a, b), max(a, b))
        pairs[key] = pairs.get(key, 0) + 1
    multi = any(v > 1 for v in pairs.values())
    # cycle detection on the simple graph
    parent = list(range(n))

    def find(x):
        while parent[x] != x:
            parent[x] = parent[parent[x]]
            x = parent[x]
        return x
    cyc = False
    for (a, b) in pairs:
        ra, rb = find(a), find(b)
        if ra == rb:
            cyc = True
        else:
            parent[ra] = rb
    ncomp_conn = len({find(x) for x in range(n)})
    total_pins = sum(len(c["pins"]) for c in circ["comps"])
    linked = 2 * len(circ["links"])
    free = total_pins - linked
    tags = [f"comps:{n}", f"links:{min(len(circ['links']), 6)}{'+' if len(circ['links']) > 6 else ''}"]
    if multi:
        tags.append("multi-link")
    if cyc:
        tags.append("cycle")
    if ncomp_conn > 1:
        tags.append("disconnected")
    if any(len(c["pins"]) == 1 for c in circ["comps"]):
        tags.append("one-port")
    if len(circ["exposed"]) < free:
        tags.append("partial-exposure")
    return tags


def nontrivial(circ):
    return len(circ["comps"]) >= 2 and len(circ["links"]) >= 1
